"""Observed probe streams vs twin traces for generated programs (C02, C06, C11)."""

from vlib import prorun

METAS = ["#enter", "#exit", "#value", "#error", "#yield", "#receive"]
SKIP_FOCUS = ("cv2", "G2")  # closure / global names written by the body: also reported at entry


def body_names(m):
    return [n for n in m["names"] if n not in SKIP_FOCUS]


def fn_source(m):
    src = m["src"]
    a = src.index("def factory(") if "def factory(" in src else src.index("def f(")
    b = src.index("def factory_T(") if "def factory_T(" in src else src.index("def f_T(")
    return src[a:b]


def twin_events(mod, m, argi):
    """Full twin trace [(kind, name, value-repr)] for function f."""
    out = prorun.run_call(mod, mod.f_T, argi, m["script"], hook=prorun.recording_hook(mod), cell_owner="f_T")
    return [(k, n, v) for (fn, k, n, v) in out["events"] if fn == "f"], out


def sort_runs(evs, params):
    """Canonicalise orders the statements leave open: consecutive #loop_* (and #endloop_*)
    events of one iteration, and the run of parameter events at entry."""
    out = []
    i = 0
    # parameter run: the first events after #enter that are parameter names, each once
    while i < len(evs):
        name = evs[i][0]
        pre = None
        for p in ("#loop_", "#endloop_"):
            if name.startswith(p):
                pre = p
        if pre:
            j = i
            while j < len(evs) and evs[j][0].startswith(pre):
                j += 1
            out.extend(sorted(evs[i:j]))
            i = j
        else:
            out.append(evs[i])
            i += 1
    # parameter run
    k = 0
    while k < len(out) and out[k][0] == "#enter":
        k += 1
    j = k
    seen = set()
    while j < len(out) and out[j][0] in params and out[j][0] not in seen:
        seen.add(out[j][0])
        j += 1
    out[k:j] = sorted(out[k:j])
    return out


def observe_merged(mod, m, argi, names, metas=True, loopmetas=True):
    """Run f under one probe with a named selector per variable / meta-variable; return
    ([(name, value-repr)] in delivery order, outcome)."""
    from ptera import probing

    sels = [f"f > {n}" for n in names]
    if metas:
        sels += [f"f > {x}" for x in METAS]
    if loopmetas:
        sels += [f"f > #loop_{v}" for v in m["loopvars"]] + [f"f > #endloop_{v}" for v in m["loopvars"]]
    got = []
    with probing(*sels, env=vars(mod), raw=True) as prb:

        def sub(d):
            for k, c in d.items():
                got.append((c.name, prorun.norm(c.value)))

        prb.subscribe(sub)
        out = prorun.run_call(mod, mod.f, argi, m["script"])
    return got, out


def observe_only(mod, m, argi, selnames):
    """Run f under one probe made of exactly the selectors f > n for n in selnames."""
    from ptera import probing

    got = []
    with probing(*[f"f > {n}" for n in selnames], env=vars(mod), raw=True) as prb:

        def sub(d):
            for k, c in d.items():
                got.append((c.name, prorun.norm(c.value)))

        prb.subscribe(sub)
        out = prorun.run_call(mod, mod.f, argi, m["script"])
    return got, out


def first_diff(a, b):
    k = 0
    while k < min(len(a), len(b)) and a[k] == b[k]:
        k += 1
    return {"index": k, "expected": a[max(0, k - 2) : k + 3], "got": b[max(0, k - 2) : k + 3], "n_expected": len(a), "n_got": len(b)}
