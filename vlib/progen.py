"""Abstract-program generator with twins (C01 C02 C04 C06 C10 C11 C16).

One seeded generator emits, for the same abstract program, two renderings that share no
code with ptera/transform.py:

  P  plain source            - what ptera instruments
  T  hooked twin `<name>_T`  - same program with explicit hook calls written by this
     renderer at every point where the property statements say an event must occur:
        n = __b__(FN, 'n', n)          after every binding of a variable n
        (n := __b__(FN, 'n', E))       assignment expressions
        __m__(FN, '#enter', True) ...  meta events (enter/exit/value/error/yield/receive,
                                       #loop_X / #endloop_X in try/finally)
     With the *recording* hook the twin is the reference trace (C02, C06, C11); with a
     *substituting* hook it is the substituted program of C04 / C16.

Every leaf expression goes through __s__(site, value), which logs (site, repr(value)) and
returns the value; constants are unique per site, so the log fixes the evaluation order of
every sub-expression and an event's value identifies the binding that produced it.
"""

import random

PRELUDE = '''
import re as _re
LOG = []
EV = []
HOOK = [None]
G1 = 7
G2 = 0
G3 = 11

RESETS = []

def __reset__():
    global G2
    del LOG[:]
    del EV[:]
    del TAGGED[:]
    G2 = 0
    for r in RESETS:
        r()

def _norm(v):
    try:
        r = repr(v)
    except Exception as e:  # pragma: no cover
        r = "<repr failed %s>" % type(e).__name__
    return _re.sub(r" at 0x[0-9a-f]+", "", r).replace("factory_T", "factory").replace("f_T", "f").replace("factory.<locals>.", "").replace("#WRAP.<locals>.", "")

def __s__(site, v):
    LOG.append(("s", site, _norm(v)))
    return v

TAGGED = []

def __b__(fn, name, v, tags=None):
    r = HOOK[0](fn, "var", name, v)
    if tags is not None:
        TAGGED.append((fn, name, _norm(r), tags))
    return r

def __m__(fn, name, v):
    return HOOK[0](fn, "meta", name, v)

def hlp(x):
    LOG.append(("hlp", _norm(x)))
    return x + 1

def __sub__(site, k):
    for i in range(k):
        try:
            r = yield (site, i)
        except ValueError:
            # the sub-generator handles an exception thrown into the delegation and goes on
            r = yield (site, "recovered")
        LOG.append(("sub", site, i, _norm(r)))
    return site

def __yf_T__(fn, it):
    """Twin of `yield from it` inside fn: every delegated value is a #yield of fn, every value
    sent back (next/send) a #receive of fn."""
    it = iter(it)
    try:
        v = next(it)
    except StopIteration as e:
        return e.value
    while True:
        try:
            s = yield __m__(fn, '#yield', v)
        except GeneratorExit:
            if hasattr(it, "close"):
                it.close()
            raise
        except BaseException as e:
            if not hasattr(it, "throw"):
                raise
            try:
                v = it.throw(e)
            except StopIteration as e2:
                return e2.value
            continue
        s = __m__(fn, '#receive', s)
        try:
            v = next(it) if s is None else it.send(s)
        except StopIteration as e:
            return e.value

def __run_co__(co):
    try:
        co.send(None)
    except StopIteration as e:
        return e.value

class CM:
    def __init__(self, site, val, swallow=False):
        self.site = site
        self.val = val
        self.swallow = swallow
    def __enter__(self):
        LOG.append(("cm-enter", self.site))
        return self.val
    def __exit__(self, t, e, tb):
        LOG.append(("cm-exit", self.site, None if t is None else t.__name__))
        return self.swallow and t is not None and issubclass(t, ValueError)

class Obj:
    def __init__(self, tag):
        object.__setattr__(self, "_tag", tag)
        object.__setattr__(self, "_d", {})
    def __setattr__(self, k, v):
        LOG.append(("setattr", self._tag, k, _norm(v)))
        object.__setattr__(self, k, v)
    def __setitem__(self, k, v):
        LOG.append(("setitem", self._tag, _norm(k), _norm(v)))
        self._d[k] = v
    def __getitem__(self, k):
        LOG.append(("getitem", self._tag, _norm(k)))
        return self._d[k]
    def __repr__(self):
        return "Obj(%s, %s, %s)" % (self._tag, sorted((k, v) for k, v in self.__dict__.items() if not k.startswith("_")), sorted(self._d.items(), key=repr))

class It:
    """Logging one-shot iterable (not indexable)."""
    def __init__(self, tag, vals):
        self.tag = tag
        self.vals = list(vals)
        self.i = 0
    def __iter__(self):
        LOG.append(("iter", self.tag))
        return self
    def __next__(self):
        if self.i >= len(self.vals):
            LOG.append(("stop", self.tag))
            raise StopIteration
        v = self.vals[self.i]
        self.i += 1
        LOG.append(("next", self.tag, _norm(v)))
        return v
    def __repr__(self):
        return "It(%s, %s, %d)" % (self.tag, self.vals, self.i)

__DECLARED__ = type("Declared", (), {"__repr__": lambda self: "<declared-only>"})()

def __raise__(site, cls):
    LOG.append(("raise", site, cls.__name__))
    raise cls(site)
'''

LOCALS = ["a", "b", "c", "d", "e"]
TAGS = ["A", "B", "C", "D"]


class Em:
    """Two line buffers with independent indentation."""

    def __init__(self):
        self.p = []
        self.t = []
        self.ip = 0
        self.it = 0

    def both(self, s, t=None):
        self.p.append("    " * self.ip + s)
        self.t.append("    " * self.it + (s if t is None else t))

    def ponly(self, s):
        self.p.append("    " * self.ip + s)

    def tonly(self, s):
        self.t.append("    " * self.it + s)


class Gen:
    def __init__(self, rnd, opts=None):
        self.rnd = rnd
        o = dict(
            max_stmts=10,
            max_depth=3,
            generator=None,  # None: random; True/False forced
            exclude=(),
            force=(),
            tags=False,  # annotate with tag annotations (C11)
            declare=False,  # bare annotations / undefined globals (C16)
            closure=None,
            simple_exprs=False,
            future_annotations=None,
        )
        o.update(opts or {})
        self.o = o
        self.exclude = set(o["exclude"])
        self.site = 0
        self.features = set()
        self.names = {}  # fn -> ordered list of variable names bound in fn
        self.loopvars = {}  # fn -> loop variable names
        self.anns = {}  # fn -> {name: [tagset per annotated binding site]}
        self.declared = {}  # fn -> [names declared by bare annotation]
        self.undef_globals = {}  # fn -> [names]

    # ---- helpers -------------------------------------------------------
    def ok(self, feat):
        return feat not in self.exclude

    def feat(self, f):
        self.features.add(f)

    def nsite(self):
        self.site += 1
        return self.site

    def leaf(self):
        n = self.nsite()
        return f"__s__({n}, {1000 + n})"

    def note_bind(self, fn, name):
        lst = self.names.setdefault(fn, [])
        if name not in lst:
            lst.append(name)

    def bind_hook(self, em, fn, name, tags=None):
        """T-only: the event for a binding of `name` that has just happened."""
        self.note_bind(fn, name)
        extra = f", {tuple(tags)!r}" if tags is not None else ""
        em.tonly(f"{name} = __b__({fn!r}, {name!r}, {name}{extra})")

    # ---- expressions: return (p, t) ---------------------------------------
    def expr(self, ctx, depth=0):
        rnd = self.rnd
        r = rnd.random()
        bound = ctx["bound"]
        if depth >= 2 or r < 0.35 or self.o["simple_exprs"]:
            if bound and rnd.random() < 0.5:
                v = rnd.choice(sorted(bound))
                return v, v
            s = self.leaf()
            return s, s
        if r < 0.6:
            a, at = self.expr(ctx, depth + 1)
            b, bt = self.expr(ctx, depth + 1)
            op = rnd.choice(["+", "-", "*"])
            return f"({a} {op} {b})", f"({at} {op} {bt})"
        if r < 0.7:
            a, at = self.expr(ctx, depth + 1)
            return f"hlp({a})", f"hlp({at})"
        if r < 0.8 and self.ok("walrus") and not ctx.get("no_walrus"):
            # assignment expression inside an expression
            self.feat("walrus")
            name = rnd.choice(LOCALS)
            a, at = self.expr(ctx, depth + 1)
            self.note_bind(ctx["fn"], name)
            ctx["bound"].add(name)
            return f"({name} := {a})", f"({name} := __b__({ctx['fn']!r}, {name!r}, {at}))"
        if r < 0.86 and self.ok("comprehension"):
            self.feat("comprehension")
            a, at = self.expr(ctx, depth + 1)
            k = rnd.randint(1, 3)
            form = rnd.choice(["sum([{e} + _k for _k in range({k})])", "sum({{_k: {e} for _k in range({k})}}.values())", "sum(({e} for _k in range({k})))"])
            return form.format(e=a, k=k), form.format(e=at, k=k)
        if r < 0.9 and self.ok("lambda"):
            self.feat("lambda")
            a, at = self.expr(ctx, depth + 1)
            return f"(lambda _z: _z + 1)({a})", f"(lambda _z: _z + 1)({at})"
        if r < 0.915 and self.ok("mlstring"):
            # a multi-line string literal: its continuation lines are part of the value, whatever
            # the indentation of the function that contains it
            self.feat("mlstring")
            pad = rnd.choice(["", "    ", "        ", "\t"])
            txt = f'len("""s{self.nsite()}\n{pad}x\n{pad}  y""")'
            return txt, txt
        if r < 0.95 and ctx.get("globals_ok", True):
            self.feat("global_read")
            return "G1", "G1"
        if ctx.get("closure"):
            self.feat("closure_read")
            v = rnd.choice(ctx["closure"])
            return v, v
        s = self.leaf()
        return s, s

    def cond(self, ctx):
        a, at = self.expr(ctx, 1)
        k = self.rnd.choice([0, 1, 2])
        if self.rnd.random() < 0.25 and self.ok("walrus"):
            self.feat("walrus_cond")
            name = self.rnd.choice(LOCALS)
            self.note_bind(ctx["fn"], name)
            ctx["bound"].add(name)
            return f"({name} := {a}) % 3 != {k}", f"({name} := __b__({ctx['fn']!r}, {name!r}, {at})) % 3 != {k}"
        return f"{a} % 3 != {k}", f"{at} % 3 != {k}"

    # ---- statements --------------------------------------------------------
    def target_struct(self, ctx, depth=0, used=None):
        """Random (possibly nested / starred) target structure over distinct local names.
        Returns (text, [leaf names in order], nvalues-spec)."""
        rnd = self.rnd
        n = rnd.randint(2, 3) if depth == 0 else 2
        parts, leaves = [], []
        used = used if used is not None else []
        starred_at = None
        if self.ok("starred") and rnd.random() < 0.25:
            starred_at = rnd.randrange(n)
            self.feat("starred")
        shape = []
        for i in range(n):
            if depth == 0 and self.ok("nested_tuple") and rnd.random() < 0.2 and starred_at != i and len(used) <= 2:
                self.feat("nested_tuple")
                txt, lv, sh = self.target_struct(ctx, depth + 1, used)
                parts.append(f"({txt})")
                leaves += lv
                shape.append(sh)
            else:
                name = rnd.choice([x for x in LOCALS if x not in used])
                used.append(name)
                leaves.append(name)
                parts.append(("*" if starred_at == i else "") + name)
                shape.append("*" if starred_at == i else 1)
        if depth == 0 and "o" in ctx["params"] and self.ok("unpack_attr_target") and rnd.random() < 0.3:
            # an attribute / subscript target among the names; its index may read a name that a
            # LATER target of the same statement rebinds (Python stores targets left to right)
            cands = [i for i, sh in enumerate(shape) if sh == 1 and i < len(parts) - 1 and "(" not in parts[i]]
            if cands:
                i = rnd.choice(cands)
                later = [p2 for p2 in parts[i + 1:] if p2 in leaves and p2 in ctx["bound"]]
                old = parts[i]
                if later and rnd.random() < 0.7:
                    parts[i] = f"o[{rnd.choice(later)}]"
                    self.feat("unpack_subscript_target_order_dependent")
                elif rnd.random() < 0.5:
                    parts[i] = f"o[{rnd.randint(0, 2)}]"
                    self.feat("unpack_subscript_target")
                else:
                    parts[i] = f"o.bt{rnd.randint(0, 1)}"  # distinct from the o.atK of plain attribute stores
                    self.feat("unpack_attr_target")
                if old in leaves:
                    leaves.remove(old)
        return ", ".join(parts), leaves, shape

    def rhs_for_shape(self, ctx, shape, wrong=False, nested=False):
        """Build an iterable expression matching the target shape. (p, t)"""
        kinds = ["({x},)", "[{x}]"]
        if self.ok("unpack_nonindexable"):
            # dict keys may collapse equal elements: only at the top level, where a failing
            # unpack happens before any target is stored (the twin's hooks follow the statement)
            kinds += ["(_q for _q in [{x}])", "iter([{x}])", "It(%d, [{x}])" % self.nsite(), "dict.fromkeys([{x}])" if (all(s == 1 for s in shape) and not nested) else "iter([{x}])"]
        k = self.rnd.choice(kinds)
        if k not in ("({x},)", "[{x}]"):
            self.feat("unpack_nonindexable")
        saved_nw = ctx.get("no_walrus")
        if k.startswith("(_q for"):
            ctx["no_walrus"] = True
        ps, ts = [], []
        for sh in shape:
            if sh == 1:
                e = self.expr(ctx, 1)
                ps.append(e[0])
                ts.append(e[1])
            elif sh == "*":
                for _ in range(self.rnd.randint(0, 2)):
                    e = self.expr(ctx, 1)
                    ps.append(e[0])
                    ts.append(e[1])
            else:
                p, t = self.rhs_for_shape(ctx, sh, nested=True)
                ps.append(p)
                ts.append(t)
        if wrong:
            e = self.expr(ctx, 1)
            ps.append(e[0])
            ts.append(e[1])
        ctx["no_walrus"] = saved_nw
        return k.format(x=", ".join(ps)), k.format(x=", ".join(ts))

    def stmt(self, em, ctx, depth):
        rnd = self.rnd
        fn = ctx["fn"]
        choices = [
            ("assign", 6),
            ("aug", 2),
            ("ann", 2),
            ("tuple", 3),
            ("chain", 1),
            ("attr", 1),
            ("subscript", 1),
            ("if", 2),
            ("for", 3),
            ("while", 1),
            ("try", 2),
            ("with", 2),
            ("import", 1),
            ("def", 1),
            ("class", 1),
            ("expr", 1),
            ("return", 1),
            ("global", 1),
            ("del_nothing", 0),
            ("match", 1),
            ("scopes", 1),
        ]
        if ctx["is_gen"]:
            choices.append(("yield", 4))
        if ctx.get("closure_write"):
            choices.append(("nonlocal", 1))
        if self.o["declare"]:
            choices.append(("declare", 3))
            choices.append(("undef_global", 2))
        if depth >= self.o["max_depth"]:
            choices = [c for c in choices if c[0] not in ("if", "for", "while", "try", "with", "match")]
        choices = [c for c in choices if self.ok(c[0])]
        kind = rnd.choices([c[0] for c in choices], [c[1] for c in choices])[0]
        getattr(self, "s_" + kind)(em, ctx, depth)

    def block(self, em, ctx, depth, n=None):
        n = n if n is not None else self.rnd.randint(1, 3)
        for _ in range(n):
            self.stmt(em, ctx, depth)

    def s_assign(self, em, ctx, depth):
        name = self.rnd.choice(LOCALS)
        p, t = self.expr(ctx)
        self.feat("assign")
        em.both(f"{name} = {p}", f"{name} = {t}")
        self.bind_hook(em, ctx["fn"], name)
        ctx["bound"].add(name)

    def s_aug(self, em, ctx, depth):
        cands = sorted(ctx["bound"] & set(LOCALS + ctx["params"]))
        if not cands:
            return self.s_assign(em, ctx, depth)
        name = self.rnd.choice(cands)
        p, t = self.expr(ctx)
        op = self.rnd.choice(["+=", "-=", "*="])
        self.feat("augassign")
        em.both(f"{name} {op} {p}", f"{name} {op} {t}")
        self.bind_hook(em, ctx["fn"], name)

    def tagset(self):
        k = self.rnd.choice([1, 1, 2, 3])
        tags = self.rnd.sample(TAGS, k)
        if self.rnd.random() < 0.3 and k > 1:
            tags = tags + [tags[0]]  # repetition
        return tags

    def ann_text(self, tags):
        if self.rnd.random() < 0.5:
            return repr(" & ".join("@" + t for t in tags))
        return " & ".join("tag." + t for t in tags)

    def s_ann(self, em, ctx, depth):
        name = self.rnd.choice(LOCALS)
        p, t = self.expr(ctx)
        self.feat("annassign")
        tags = None
        if self.o["tags"] and self.rnd.random() < 0.7:
            tags = self.tagset()
            ann = self.ann_text(tags)
            self.anns.setdefault(ctx["fn"], {}).setdefault(name, []).append(sorted(set(tags)))
        else:
            ann = "int"
            r = self.rnd.random()
            if r < 0.2 and self.ok("ann_undefined_name"):
                # annotations of local variables are never evaluated when the function runs
                self.feat("ann_undefined_name")
                ann = "OnlyForTypeChecker"
            elif r < 0.3 and self.ok("ann_side_effect"):
                self.feat("ann_side_effect")
                ann = f"__s__({self.nsite()}, int)"
        em.both(f"{name}: {ann} = {p}", f"{name}: {ann} = {t}")
        self.bind_hook(em, ctx["fn"], name, tags=sorted(set(tags)) if tags else None)
        ctx["bound"].add(name)

    def s_tuple(self, em, ctx, depth):
        txt, leaves, shape = self.target_struct(ctx)
        wrong = self.ok("unpack_wrong_length") and self.rnd.random() < 0.08
        if wrong:
            self.feat("unpack_wrong_length")
        p, t = self.rhs_for_shape(ctx, shape, wrong=wrong and "*" not in shape)
        self.feat("tuple_assign")
        em.ponly(f"{txt} = {p}")
        # twin: Python's own semantics spelled out - unpack the direct elements, then store each
        # target in order (nested targets are unpacked when their turn comes), so that the
        # bindings made before a failing later target are reported too
        import ast as _ast

        tnode = _ast.parse(f"{txt} = 0").body[0].targets[0]
        self.twin_unpack(em, ctx["fn"], tnode, t)
        import re as _re

        starred = set(_re.findall(r"\*(\w+)", txt))
        for name in leaves:
            self.note_bind(ctx["fn"], name)
            if name in starred:
                # holds a list from now on: never read it in integer expressions (list * int
                # repetition can blow up memory)
                ctx["bound"].discard(name)
            else:
                ctx["bound"].add(name)

    def twin_unpack(self, em, fn, tnode, value):
        import ast as _ast

        temps = []
        for elt in tnode.elts:
            tmp = f"_u{self.nsite()}"
            temps.append((tmp, elt))
        lhs = ", ".join(("*" if isinstance(e, _ast.Starred) else "") + tmp for tmp, e in temps)
        em.tonly(f"{lhs}, = {value}" if len(temps) == 1 else f"{lhs} = {value}")
        for tmp, elt in temps:
            inner = elt.value if isinstance(elt, _ast.Starred) else elt
            if isinstance(inner, _ast.Name):
                em.tonly(f"{inner.id} = {tmp}")
                self.bind_hook(em, fn, inner.id)
            elif isinstance(inner, (_ast.Tuple, _ast.List)):
                self.twin_unpack(em, fn, inner, tmp)
            else:
                em.tonly(f"{_ast.unparse(inner)} = {tmp}")

    def s_chain(self, em, ctx, depth):
        n1, n2 = self.rnd.sample(LOCALS, 2)
        p, t = self.expr(ctx)
        self.feat("chained_assign")
        em.both(f"{n1} = {n2} = {p}", f"{n1} = {n2} = {t}")
        self.bind_hook(em, ctx["fn"], n1)
        self.bind_hook(em, ctx["fn"], n2)
        ctx["bound"].update([n1, n2])

    def s_attr(self, em, ctx, depth):
        if "o" not in ctx["params"]:
            return self.s_assign(em, ctx, depth)
        p, t = self.expr(ctx)
        k = self.rnd.randint(0, 1)
        self.feat("attr_store")
        em.both(f"o.at{k} = {p}", f"o.at{k} = __b__({ctx['fn']!r}, 'o.at{k}', {t})")
        self.attr_names = getattr(self, "attr_names", set())
        self.attr_names.add(f"o.at{k}")

    def s_subscript(self, em, ctx, depth):
        if "o" not in ctx["params"]:
            return self.s_assign(em, ctx, depth)
        p, t = self.expr(ctx)
        if self.ok("subscript_side_effect_index") and self.rnd.random() < 0.5:
            self.feat("subscript_side_effect_index")
            idx = self.leaf()
        else:
            idx = str(self.rnd.randint(0, 2))
        self.feat("subscript_store")
        em.both(f"o[{idx}] = {p}", f"o[{idx}] = {t}")

    def s_expr(self, em, ctx, depth):
        p, t = self.expr(ctx)
        em.both(f"hlp({p})", f"hlp({t})")

    def s_if(self, em, ctx, depth):
        p, t = self.cond(ctx)
        self.feat("if")
        em.both(f"if {p}:", f"if {t}:")
        saved = set(ctx["bound"])
        em.ip += 1
        em.it += 1
        self.block(em, ctx, depth + 1)
        b1 = set(ctx["bound"])
        ctx["bound"] = set(saved)
        em.ip -= 1
        em.it -= 1
        if self.rnd.random() < 0.5:
            em.both("else:")
            em.ip += 1
            em.it += 1
            self.block(em, ctx, depth + 1)
            b2 = set(ctx["bound"])
            em.ip -= 1
            em.it -= 1
            ctx["bound"] = saved | (b1 & b2)
        else:
            ctx["bound"] = saved

    def s_scopes(self, em, ctx, depth):
        """Nested scopes whose own bindings / yields / returns are not those of f: a lambda that
        assigns (walrus) or yields, a nested def with a parameter named like a local of f, a nested
        async def that returns."""
        rnd = self.rnd
        fn = ctx["fn"]
        kind = rnd.choice(["lambda_walrus", "lambda_yield", "param_shadow", "async_def"])
        self.feat("scope_" + kind)
        name = rnd.choice(LOCALS)
        other = rnd.choice(LOCALS)
        leaf = self.leaf()
        if kind == "lambda_walrus":
            em.both(f"{name} = (lambda: ({other} := {leaf}))()")
        elif kind == "lambda_yield":
            em.both(f"{name} = next((lambda: (yield {leaf}))())")
        elif kind == "param_shadow":
            em.both(f"def h_sh({other}, _k={leaf}):")
            em.both(f"    {other} = {other} + _k")
            em.both(f"    return {other}")
            self.bind_hook(em, fn, "h_sh") if False else None
            em.both(f"{name} = h_sh({self.leaf()})")
            ctx.setdefault("nested_names", []).append("h_sh")
        else:
            em.both("async def co_in():")
            em.both(f"    return {leaf}")
            em.both(f"{name} = __run_co__(co_in())")
            ctx.setdefault("nested_names", []).append("co_in")
        self.bind_hook(em, fn, name)
        ctx["bound"].add(name)

    def s_match(self, em, ctx, depth):
        """match statement: the names captured by the pattern of the case that is taken are
        bound when its body starts (in source order)."""
        rnd = self.rnd
        fn = ctx["fn"]
        self.feat("match")
        n = rnd.randint(1, 3)
        subj = [self.expr(ctx, 1) for _ in range(n)]
        em.both("match [" + ", ".join(p for p, _ in subj) + "]:", "match [" + ", ".join(t for _, t in subj) + "]:")
        saved = set(ctx["bound"])
        em.ip += 1
        em.it += 1
        shapes = ["wrong_len", "exact", "guard", "star", "as", "or", "mapping_miss"]
        nonint_all = set()
        rnd.shuffle(shapes)
        for shape in shapes[: rnd.randint(1, 3)]:
            ctx["bound"] = set(saved)
            names = rnd.sample(LOCALS, min(len(LOCALS), n + 1))
            ints, others = [], []
            if shape == "wrong_len":
                pat = "[" + ", ".join(names[: n + 1]) + "]"
            elif shape == "exact":
                pat = "[" + ", ".join(names[:n]) + "]"
                ints = names[:n]
            elif shape == "guard":
                pat = "[" + ", ".join(names[:n]) + "]"
                gcond = f"{names[0]} % 2 == {rnd.randint(0, 1)}"
                ints = names[:n]
            elif shape == "star":
                pat = f"[{names[0]}, *{names[1]}]" if n > 1 else f"[*{names[1]}]"
                ints = [names[0]] if n > 1 else []
                others = [names[1]]
            elif shape == "as":
                pat = "[" + ", ".join(names[:n]) + f"] as {names[n]}"
                ints = names[:n]
                others = [names[n]]
            elif shape == "or":
                pat = "[" + ", ".join(names[:n]) + "] | [" + ", ".join(names[:n]) + ", _]"
                ints = names[:n]
            else:
                pat = "{'k': " + names[0] + ", **" + names[1] + "}"
            if shape == "guard":
                # the captures are bound when the pattern matches, before the guard is evaluated
                # (and stay bound when the guard fails)
                hooks = ", ".join(f"({nm} := __b__({fn!r}, {nm!r}, {nm}))" for nm in ints)
                for nm in ints:
                    self.note_bind(fn, nm)
                em.ponly(f"case {pat} if {gcond}:")
                em.tonly(f"case {pat} if ({hooks}, {gcond})[-1]:")
            else:
                em.both(f"case {pat}:")
            em.ip += 1
            em.it += 1
            if shape == "guard":
                ctx["bound"] |= set(ints)
            elif shape not in ("wrong_len", "mapping_miss"):
                order = (ints + others) if shape != "star" or n > 1 else others
                for nm in order:
                    if nm in others:
                        self.feat("match_capture_nonint")
                        nonint_all.add(nm)
                        ctx["bound"].discard(nm)
                    self.bind_hook(em, fn, nm)
                ctx["bound"] |= set(ints)
            self.block(em, ctx, depth + 1, n=rnd.randint(1, 2))
            em.ip -= 1
            em.it -= 1
        if rnd.random() < 0.5:
            ctx["bound"] = set(saved)
            em.both("case _:")
            em.ip += 1
            em.it += 1
            self.block(em, ctx, depth + 1, n=1)
            em.ip -= 1
            em.it -= 1
        em.ip -= 1
        em.it -= 1
        # which names are bound afterwards depends on the case taken (and a failed guard still binds)
        ctx["bound"] = set(saved) - nonint_all

    def loop_exit(self, em, ctx, depth):
        """Maybe emit break / continue / return / raise inside a loop body."""
        r = self.rnd.random()
        if r < 0.45:
            return
        p, t = self.cond(ctx)
        em.both(f"if {p}:", f"if {t}:")
        em.ip += 1
        em.it += 1
        k = self.rnd.random()
        if k < 0.35:
            self.feat("break")
            em.both("break")
        elif k < 0.7:
            self.feat("continue")
            em.both("continue")
        elif k < 0.85:
            self.feat("return_in_loop")
            self.emit_return(em, ctx)
        else:
            self.feat("raise_in_loop")
            n = self.nsite()
            em.both(f"__raise__({n}, ValueError)")
        em.ip -= 1
        em.it -= 1

    def s_for(self, em, ctx, depth):
        rnd = self.rnd
        fn = ctx["fn"]
        saved = set(ctx["bound"])
        two = rnd.random() < 0.3
        k = rnd.randint(0, 3)
        if two:
            lv = rnd.sample(["i", "j", "k"], 2)
            star = self.ok("starred") and rnd.random() < 0.2
            if star:
                self.feat("starred_for")
                tgt = f"{lv[0]}, *{lv[1]}"
            else:
                tgt = f"{lv[0]}, {lv[1]}"
            items = ", ".join(f"({self.leaf()}, {self.leaf()})" for _ in range(k))
            it_p = it_t = f"[{items}]"
            self.feat("for_tuple_target")
        else:
            lv = [rnd.choice(["i", "j", "k"])]
            tgt = lv[0]
            r = rnd.random()
            if r < 0.5:
                it_p = it_t = f"range({k})"
            elif r < 0.8:
                a, at = self.expr(ctx, 1)
                it_p, it_t = f"range({a} % 4)", f"range({at} % 4)"
            else:
                tag = self.nsite()
                vals = ", ".join(self.leaf() for _ in range(k))
                it_p = it_t = f"It({tag}, [{vals}])"
        self.feat("for")
        for v in lv:
            self.loopvars.setdefault(fn, [])
            if v not in self.loopvars[fn]:
                self.loopvars[fn].append(v)
        em.both(f"for {tgt} in {it_p}:", f"for {tgt} in {it_t}:")
        em.ip += 1
        em.it += 1
        for v in lv:
            em.tonly(f"__m__({fn!r}, '#loop_{v}', True)")
        em.tonly("try:")
        em.it += 1
        for v in lv:
            self.bind_hook(em, fn, v)
            if "*" + v in tgt:
                ctx["bound"].discard(v)
            else:
                ctx["bound"].add(v)
        ctx["loop"] = ctx.get("loop", 0) + 1
        self.block(em, ctx, depth + 1, rnd.randint(1, 2))
        self.loop_exit(em, ctx, depth)
        if rnd.random() < 0.4:
            self.block(em, ctx, depth + 1, 1)
        ctx["loop"] -= 1
        em.it -= 1
        em.tonly("finally:")
        em.it += 1
        for v in lv:
            em.tonly(f"__m__({fn!r}, '#endloop_{v}', True)")
        em.it -= 1
        em.ip -= 1
        em.it -= 1
        ctx["bound"] = set(saved)
        if rnd.random() < 0.25:
            self.feat("for_else")
            em.both("else:")
            em.ip += 1
            em.it += 1
            self.block(em, ctx, depth + 1, 1)
            em.ip -= 1
            em.it -= 1
            ctx["bound"] = set(saved)

    def s_while(self, em, ctx, depth):
        cnt = f"_w{self.nsite()}"
        k = self.rnd.randint(0, 3)
        saved = set(ctx["bound"])
        self.feat("while")
        em.both(f"{cnt} = 0")
        em.both(f"while {cnt} < {k}:")
        em.ip += 1
        em.it += 1
        em.both(f"{cnt} += 1")
        ctx["loop"] = ctx.get("loop", 0) + 1
        self.block(em, ctx, depth + 1, self.rnd.randint(1, 2))
        self.loop_exit(em, ctx, depth)
        ctx["loop"] -= 1
        em.ip -= 1
        em.it -= 1
        ctx["bound"] = set(saved)

    def s_try(self, em, ctx, depth):
        rnd = self.rnd
        fn = ctx["fn"]
        saved = set(ctx["bound"])
        self.feat("try")
        em.both("try:")
        em.ip += 1
        em.it += 1
        self.block(em, ctx, depth + 1, rnd.randint(1, 2))
        if rnd.random() < 0.6:
            n = self.nsite()
            p, t = self.cond(ctx)
            cls = rnd.choice(["ValueError", "KeyError", "ZeroDivisionError"])
            em.both(f"if {p}:", f"if {t}:")
            em.both(f"    __raise__({n}, {cls})")
            self.feat("raise_in_try")
        if self.ok("return") and (rnd.random() < 0.2 or ctx.pop("force_try_return", False)):
            # the try body ends with a return: what follows the try statement is reached only
            # when a handler swallowed an exception
            self.feat("try_body_ends_with_return")
            self.emit_return(em, ctx)
        em.ip -= 1
        em.it -= 1
        ctx["bound"] = set(saved)
        has_handler = rnd.random() < 0.8
        if has_handler:
            named = rnd.random() < 0.6
            cls = rnd.choice(["ValueError", "(ValueError, KeyError)", "Exception"])
            if named:
                en = rnd.choice(["e1", "e2"])
                self.feat("except_named")
                em.both(f"except {cls} as {en}:")
                em.ip += 1
                em.it += 1
                self.bind_hook(em, fn, en)
            else:
                self.feat("except_unnamed")
                em.both(f"except {cls}:")
                em.ip += 1
                em.it += 1
            b = set(ctx["bound"])
            if self.ok("except_body_binding") and rnd.random() < 0.5:
                # a name bound only inside the handler body (C10)
                self.feat("except_body_binding")
                nm = rnd.choice(["h1", "h2"])
                s = self.leaf()
                em.both(f"{nm} = {s}")
                self.bind_hook(em, fn, nm)
            self.block(em, ctx, depth + 1, 1)
            if rnd.random() < 0.15:
                self.feat("reraise")
                em.both("raise")
            em.ip -= 1
            em.it -= 1
            ctx["bound"] = set(saved)
            if rnd.random() < 0.3:
                self.feat("try_else")
                em.both("else:")
                em.ip += 1
                em.it += 1
                self.block(em, ctx, depth + 1, 1)
                em.ip -= 1
                em.it -= 1
                ctx["bound"] = set(saved)
        if not has_handler or rnd.random() < 0.4:
            self.feat("finally")
            em.both("finally:")
            em.ip += 1
            em.it += 1
            self.block(em, ctx, depth + 1, 1)
            if self.ok("return_in_finally") and rnd.random() < 0.1 and not ctx["is_gen"]:
                self.feat("return_in_finally")
                self.emit_return(em, ctx)
            em.ip -= 1
            em.it -= 1
            ctx["bound"] = set(saved)

    def s_with(self, em, ctx, depth):
        rnd = self.rnd
        fn = ctx["fn"]
        saved = set(ctx["bound"])
        self.feat("with")
        r = rnd.random()
        items_p, items_t, names = [], [], []
        swallow = rnd.random() < 0.2
        if r < 0.5:
            nm = rnd.choice(["w1", "w2"])
            v, vt = self.expr(ctx, 1)
            st = self.nsite()
            items_p.append(f"CM({st}, {v}, {swallow}) as {nm}")
            items_t.append(f"CM({st}, {vt}, {swallow}) as {nm}")
            names.append(nm)
        elif r < 0.75:
            # several items: the second context expression reads the first target (the statement is
            # equivalent to two nested with statements, which is how the twin writes it)
            self.feat("with_multi")
            s1, s2 = self.leaf(), self.leaf()
            n1, n2 = self.nsite(), self.nsite()
            em.ponly(f"with CM({n1}, {s1}) as w1, CM({n2}, w1 + {s2}) as w2:")
            em.tonly(f"with CM({n1}, {s1}) as w1:")
            em.it += 1
            self.bind_hook(em, fn, "w1")
            em.tonly(f"with CM({n2}, w1 + {s2}) as w2:")
            em.it += 1
            self.bind_hook(em, fn, "w2")
            em.ip += 1
            ctx["bound"] |= {"w1", "w2"}
            self.block(em, ctx, depth + 1, rnd.randint(1, 2))
            em.ip -= 1
            em.it -= 2
            ctx["bound"] = saved | {"w1", "w2"}
            return
        elif r < 0.9:
            self.feat("with_tuple_target")
            s1, s2 = self.leaf(), self.leaf()
            items_p.append(f"CM({self.nsite()}, ({s1}, {s2})) as (w1, w2)")
            items_t.append(items_p[-1])
            names += ["w1", "w2"]
        else:
            self.feat("with_no_target")
            items_p.append(f"CM({self.nsite()}, 0, {swallow})")
            items_t.append(items_p[-1])
        em.both("with " + ", ".join(items_p) + ":", "with " + ", ".join(items_t) + ":")
        em.ip += 1
        em.it += 1
        for nm in names:
            self.bind_hook(em, fn, nm)
            ctx["bound"].add(nm)
        self.block(em, ctx, depth + 1, rnd.randint(1, 2))
        if swallow and rnd.random() < 0.7:
            em.both(f"__raise__({self.nsite()}, ValueError)")
        em.ip -= 1
        em.it -= 1
        ctx["bound"] = saved | set(names)

    def s_import(self, em, ctx, depth):
        rnd = self.rnd
        fn = ctx["fn"]
        forms = [("import math", ["math"], "import"), ("from math import floor as fl", ["fl"], "from_import_as"), ("from os import sep", ["sep"], "from_import"), ("import json as js", ["js"], "import_as")]
        if self.ok("import_dotted"):
            forms.append(("import os.path", ["os"], "import_dotted"))
        txt, names, feat = rnd.choice(forms)
        self.feat(feat)
        em.both(txt)
        for nm in names:
            self.bind_hook(em, fn, nm)

    def s_def(self, em, ctx, depth):
        fn = ctx["fn"]
        nm = self.rnd.choice(["h_in", "h_in2"])
        self.feat("nested_def")
        ref = sorted(ctx["bound"] & set(LOCALS + ctx["params"]))
        body = f"_y + {self.rnd.choice(ref)}" if ref and self.rnd.random() < 0.6 else "_y + 1"
        if ctx.get("closure") and self.ok("passthrough_free") and self.rnd.random() < 0.6:
            # cv3 is a closure variable of f that only the nested function reads
            self.feat("passthrough_free_def")
            body += " + cv3"
        em.both(f"def {nm}(_y):")
        em.both(f"    return {body}")
        if self.ok("nested_def_name_event"):
            pass
        p, t = self.expr(ctx, 1)
        name = self.rnd.choice(LOCALS)
        em.both(f"{name} = {nm}({p})", f"{name} = {nm}({t})")
        self.bind_hook(em, fn, name)
        ctx["bound"].add(name)
        ctx.setdefault("nested_names", []).append(nm)

    def s_class(self, em, ctx, depth):
        fn = ctx["fn"]
        nm = self.rnd.choice(["Kc", "Kc2"])
        self.feat("nested_class")
        s = self.leaf()
        em.both(f"class {nm}:")
        if ctx.get("closure") and self.ok("passthrough_free") and self.rnd.random() < 0.6:
            # cv3 is a closure variable of f that only the class body reads
            self.feat("passthrough_free_class")
            s += " + cv3"
        em.both(f"    cattr = {s}")
        name = self.rnd.choice(LOCALS)
        em.both(f"{name} = {nm}.cattr + 1")
        self.bind_hook(em, fn, name)
        ctx["bound"].add(name)
        ctx.setdefault("nested_names", []).append(nm)

    def s_global(self, em, ctx, depth):
        # `global G2` must come before any use: it is emitted once at the top of the function;
        # here we only write to it when the function declared it.
        if not ctx.get("declares_global"):
            return self.s_assign(em, ctx, depth)
        p, t = self.expr(ctx, 1)
        self.feat("global_write")
        em.both(f"G2 = {p}", f"G2 = {t}")
        self.bind_hook(em, ctx["fn"], "G2")

    def s_nonlocal(self, em, ctx, depth):
        p, t = self.expr(ctx, 1)
        self.feat("nonlocal_write")
        v = ctx["closure_write"]
        em.both(f"{v} = {p}", f"{v} = {t}")
        self.bind_hook(em, ctx["fn"], v)

    def s_declare(self, em, ctx, depth):
        """Bare annotation: declared-only variable (C16)."""
        fn = ctx["fn"]
        if "o" in ctx["params"] and self.rnd.random() < 0.15:
            # a value-less annotation of an attribute or subscript declares no variable (no-op)
            self.feat("attr_or_subscript_declaration")
            em.both(self.rnd.choice(["o.dzz: int", "o['dzz']: int"]))
            return
        cands = [n for n in ["dv1", "dv2", "dv3"] if n not in self.declared.get(fn, [])]
        if not cands:
            return self.s_assign(em, ctx, depth)
        nm = cands[0]
        self.declared.setdefault(fn, []).append(nm)
        self.feat("bare_annotation")
        tags = self.tagset() if self.rnd.random() < 0.5 else None
        ann = self.ann_text(tags) if tags else "int"
        self.decl_ann = getattr(self, "decl_ann", {})
        self.decl_ann[(fn, nm)] = sorted(set(tags)) if tags else None
        em.ponly(f"{nm}: {ann}")
        em.tonly(f"{nm} = __b__({fn!r}, {nm!r}, __DECLARED__)")
        self.note_bind(fn, nm)
        # use it afterwards
        name = self.rnd.choice(LOCALS)
        em.both(f"{name} = {nm} + {self.leaf()}")
        self.bind_hook(em, fn, name)
        ctx["bound"].add(name)

    def s_undef_global(self, em, ctx, depth):
        fn = ctx["fn"]
        nm = self.rnd.choice(["UNDEF1", "UNDEF2"])
        self.undef_globals.setdefault(fn, [])
        if nm not in self.undef_globals[fn]:
            self.undef_globals[fn].append(nm)
        self.feat("undefined_global")
        p, t = self.cond(ctx)
        name = self.rnd.choice(LOCALS)
        em.both(f"if {p}:", f"if {t}:")
        em.both(f"    {name} = {nm} + 1")
        em.it += 1
        em.tonly(f"{name} = __b__({fn!r}, {name!r}, {name})")
        em.it -= 1
        self.note_bind(fn, name)

    def s_del_nothing(self, em, ctx, depth):
        pass

    def emit_return(self, em, ctx):
        fn = ctx["fn"]
        if self.rnd.random() < 0.2:
            self.feat("bare_return")
            em.ponly("return")
            em.tonly(f"return __m__({fn!r}, '#value', None)")
        else:
            p, t = self.expr(ctx, 1)
            self.feat("return_value")
            em.ponly(f"return {p}")
            em.tonly(f"return __m__({fn!r}, '#value', {t})")

    def s_return(self, em, ctx, depth):
        if self.rnd.random() < 0.6:
            # guard it so that the rest of the body is reachable
            p, t = self.cond(ctx)
            em.both(f"if {p}:", f"if {t}:")
            em.ip += 1
            em.it += 1
            self.emit_return(em, ctx)
            em.ip -= 1
            em.it -= 1
        else:
            self.emit_return(em, ctx)

    def s_yield(self, em, ctx, depth):
        fn = ctx["fn"]
        r = self.rnd.random()
        if self.ok("yield_from") and self.rnd.random() < 0.2:
            # delegation to a sub-generator (which logs what it is sent)
            self.feat("yield_from")
            nm = self.rnd.choice(LOCALS)
            n = self.nsite()
            k = self.rnd.randint(0, 2)
            if self.rnd.random() < 0.3:
                # delegation to a plain iterable: a value sent into it is an AttributeError at the
                # `yield from` (its iterator has no send), not a silent next
                self.feat("yield_from_plain_iterable")
                items = "[" + ", ".join(self.leaf() for _ in range(k + 1)) + "]"
                em.ponly(f"{nm} = yield from {items}")
                em.tonly(f"{nm} = yield from __yf_T__({fn!r}, {items})")
                self.bind_hook(em, fn, nm)
                ctx["bound"].discard(nm)
                return
            em.ponly(f"{nm} = yield from __sub__({n}, {k})")
            em.tonly(f"{nm} = yield from __yf_T__({fn!r}, __sub__({n}, {k}))")
            self.bind_hook(em, fn, nm)
            ctx["bound"].add(nm)
            return
        if r < 0.9:
            p, t = self.expr(ctx, 1)
        if r < 0.5:
            self.feat("yield_stmt")
            em.ponly(f"yield {p}")
            em.tonly(f"__m__({fn!r}, '#receive', (yield __m__({fn!r}, '#yield', {t})))")
        elif r < 0.9:
            self.feat("yield_rhs")
            nm = self.rnd.choice(LOCALS)
            em.ponly(f"{nm} = yield {p}")
            em.tonly(f"{nm} = __m__({fn!r}, '#receive', (yield __m__({fn!r}, '#yield', {t})))")
            self.bind_hook(em, fn, nm)
            # the received value may be None: do not treat as int-bound
            ctx["bound"].discard(nm)
        else:
            self.feat("bare_yield")
            em.ponly("yield")
            em.tonly(f"__m__({fn!r}, '#receive', (yield __m__({fn!r}, '#yield', None)))")

    # ---- functions -----------------------------------------------------------
    def params(self, ctx_kind):
        rnd = self.rnd
        spec = []  # (text, name, ann tags or None)
        names = []
        k = rnd.random()
        pos = rnd.sample(["p", "q", "r"], rnd.randint(1, 3))
        parts = []
        def one(nm, default=None):
            ann = ""
            if self.o["tags"] and rnd.random() < 0.5:
                tags = self.tagset()
                ann = ": " + self.ann_text(tags)
                self.anns.setdefault(self.cur_fn, {}).setdefault(nm, []).append(sorted(set(tags)))
            elif self.o.get("future_annotations") and rnd.random() < 0.4:
                # with `from __future__ import annotations` a parameter annotation may name things
                # that only exist for a type checker
                self.feat("param_ann_undefined_name")
                ann = ": OnlyForTypeChecker"
            return f"{nm}{ann}" + (f" = {default}" if default is not None else "")
        if self.ok("posonly") and rnd.random() < 0.2 and len(pos) >= 2:
            self.feat("posonly")
            parts += [one(pos[0]), "/"] + [one(x) for x in pos[1:]]
        else:
            parts += [one(x) for x in pos]
        names += pos
        if rnd.random() < 0.25:
            self.feat("default_param")
            parts.append(one("dflt", 5))
            names.append("dflt")
        if rnd.random() < 0.2:
            self.feat("varargs")
            parts.append("*rest")
            names.append("rest")
            if rnd.random() < 0.5:
                self.feat("kwonly")
                parts.append(one("kwo", 3))
                names.append("kwo")
        elif rnd.random() < 0.15:
            self.feat("kwonly")
            parts += ["*", one("kwo", 3)]
            names.append("kwo")
        if rnd.random() < 0.15:
            self.feat("varkw")
            parts.append("**kws")
            names.append("kws")
        if rnd.random() < 0.35:
            # `o` is a logging object parameter (first positional)
            parts.insert(0, "o")
            names.insert(0, "o")
            self.feat("obj_param")
        return ", ".join(parts), names

    def function(self, name, is_gen, closure=None, closure_write=None, nstmts=None):
        rnd = self.rnd
        self.cur_fn = name
        em = Em()
        ptxt, pnames = self.params(name)
        int_params = [n for n in pnames if n in ("p", "q", "r", "dflt", "kwo")]
        ctx = {
            "fn": name,
            "params": pnames,
            "bound": set(int_params),
            "is_gen": is_gen,
            "closure": closure or [],
            "closure_write": closure_write,
            "declares_global": self.ok("global") and rnd.random() < 0.2,
        }
        em.p.append(f"def {name}({ptxt}):")
        em.t.append(f"def {name}_T({ptxt}):")
        em.ip = 1
        em.it = 1
        if ctx["declares_global"]:
            self.feat("global_decl")
            em.both("global G2")
        if closure_write:
            em.both(f"nonlocal {closure_write}")
        em.tonly(f"__m__({name!r}, '#enter', True)")
        em.tonly("try:")
        em.it += 1
        for n in pnames:
            ptags = self.anns.get(name, {}).get(n)
            self.bind_hook(em, name, n, tags=ptags[0] if ptags else None)
        n = nstmts if nstmts is not None else rnd.randint(2, self.o["max_stmts"])
        for _ in range(n):
            self.stmt(em, ctx, 0)
        # tail
        r = rnd.random()
        if self.ok("try") and rnd.random() < 0.15:
            # the function ends with a try statement whose body returns
            self.feat("tail_try_return")
            ctx["force_try_return"] = True
            self.s_try(em, ctx, 0)
            ctx.pop("force_try_return", None)
            r = 1.0
        if is_gen:
            if r < 0.3:
                self.feat("gen_return_value")
                p, t = self.expr(ctx, 1)
                em.ponly(f"return {p}")
                em.tonly(f"return __m__({name!r}, '#value', {t})")
            else:
                self.feat("fallthrough")
                em.tonly(f"return __m__({name!r}, '#value', None)")
        else:
            if r < 0.75 or not self.ok("fallthrough"):
                self.emit_return(em, ctx)
            else:
                self.feat("fallthrough")
                # no trailing statement in the program: whatever compound statement comes last
                # (try / if / loop / with / match) is the end of the function
                em.tonly(f"return __m__({name!r}, '#value', None)")
        em.it -= 1
        em.tonly("except BaseException as __e:")
        em.tonly(f"    __m__({name!r}, '#error', __e)")
        em.tonly("    raise")
        em.tonly("finally:")
        em.tonly(f"    __m__({name!r}, '#exit', True)")
        self.fn_params = getattr(self, "fn_params", {})
        self.fn_params[name] = pnames
        self.fn_ctx = getattr(self, "fn_ctx", {})
        self.fn_ctx[name] = ctx
        return em


def make_args(rnd, pnames, ptxt=None):
    """Argument-building source for a parameter list: returns python expr of (args, kwargs)."""
    args = []
    kwargs = {}
    for n in pnames:
        if n == "o":
            args.append("Obj(1)")
        elif n in ("p", "q", "r"):
            args.append(str(rnd.randint(-3, 9)))
        elif n == "dflt":
            if rnd.random() < 0.5:
                args.append(str(rnd.randint(0, 5)))
            else:
                break
    extra = []
    if "rest" in pnames and len(args) == len([n for n in pnames if n in ("o", "p", "q", "r", "dflt")]):
        extra = [str(rnd.randint(0, 3)) for _ in range(rnd.randint(0, 2))]
    if "kwo" in pnames and rnd.random() < 0.5:
        kwargs["kwo"] = str(rnd.randint(0, 5))
    if "kws" in pnames and rnd.random() < 0.5:
        kwargs["zz"] = "1"
    a = ", ".join(args + extra)
    k = ", ".join(f"{k}={v}" for k, v in kwargs.items())
    return "(" + a + ("," if a else "") + "), dict(" + k + ")"


def gen_script(rnd, n=6):
    ops = []
    for _ in range(rnd.randint(1, n)):
        r = rnd.random()
        if r < 0.55:
            ops.append(["next"])
        elif r < 0.8:
            ops.append(["send", rnd.randint(1, 9)])
        elif r < 0.9:
            ops.append(["throw", rnd.choice(["ValueError", "KeyError", "GeneratorExit"])])
            if rnd.random() < 0.3:
                # legacy signatures throw(type, value) / throw(type, (args...))
                ops[-1].append(rnd.choice(["value", "tuple"]))
        else:
            ops.append(["close"])
    if rnd.random() < 0.5:
        ops.append(["exhaust"])
    elif rnd.random() < 0.5:
        ops.append(["drop"])
    return ops


def build_module(rnd, opts=None):
    """Returns dict(src, fn='f', is_gen, argsrc, script, features, names, loopvars, anns, declared, ...)."""
    opts = dict(opts or {})
    g = Gen(rnd, opts)
    is_gen = opts.get("generator")
    if is_gen is None:
        is_gen = rnd.random() < 0.3
    if opts.get("future_annotations") is None:
        opts["future_annotations"] = g.o["future_annotations"] = rnd.random() < 0.25
    use_closure = opts.get("closure")
    if use_closure is None:
        use_closure = rnd.random() < 0.2
    closure_write = None
    lines = ["from __future__ import annotations" if opts["future_annotations"] else "", "from ptera import tag" if opts.get("tags") or opts.get("declare") else "", PRELUDE]
    # an instrumentable helper called from f through the expression generator is `hlp` (not
    # instrumented); a second generated function g is called explicitly by name.
    if use_closure:
        g.feat("closure")
        if g.ok("nonlocal") and rnd.random() < 0.3:
            closure_write = "cv2"
        em = g.function("f", is_gen, closure=["cv1", "cv2"], closure_write=closure_write)
        body_p = ["def factory(cv1, cv2, cv3=47):"] + ["    " + ln for ln in em.p] + ["    return f", "f = factory(41, 43)"]
        body_t = ["def factory_T(cv1, cv2, cv3=47):"] + ["    " + ln for ln in em.t] + ["    return f_T", "f_T = factory_T(41, 43)"]
        lines += body_p + [""] + body_t
        lines += [
            "",
            "def __reset_cells__():",
            "    for fn in (f, f_T):",
            "        for name, cell in zip(fn.__code__.co_freevars, fn.__closure__ or ()):",
            "            if name in ('cv1', 'cv2'):",
            "                cell.cell_contents = {'cv1': 41, 'cv2': 43}[name]",
            "RESETS.append(__reset_cells__)",
        ]
    else:
        em = g.function("f", is_gen)
        lines += em.p + [""] + em.t
    pnames = g.fn_params["f"]
    argsrcs = [make_args(rnd, pnames) for _ in range(3)]
    lines.append("")
    lines.append("def make_args(i):")
    for i, a in enumerate(argsrcs):
        lines.append(f"    if i == {i}: return {a}")
    lines.append("    raise IndexError(i)")
    src = "\n".join(lines) + "\n"
    return {
        "src": src,
        "fn": "f",
        "is_gen": is_gen,
        "nargs": len(argsrcs),
        "script": gen_script(rnd) if is_gen else None,
        "features": sorted(g.features),
        "names": g.names.get("f", []),
        "params": pnames,
        "loopvars": g.loopvars.get("f", []),
        "anns": g.anns.get("f", {}),
        "declared": g.declared.get("f", []),
        "decl_ann": {k[1]: v for k, v in getattr(g, "decl_ann", {}).items()},
        "undef_globals": g.undef_globals.get("f", []),
        "closure": use_closure,
        "closure_write": closure_write,
        "nested_names": g.fn_ctx["f"].get("nested_names", []),
        "declares_global": g.fn_ctx["f"]["declares_global"],
        "attr_names": sorted(getattr(g, "attr_names", set())),
    }
