"""Worker process: runs one shard of one check against /repo's working tree."""
import faulthandler
import importlib
import json
import os
import sys


def main():
    prop, spec_path, out_path = sys.argv[1:4]
    here = os.path.dirname(os.path.dirname(os.path.abspath(__file__)))
    repo = os.environ.get("PTERA_REPO", "/repo")
    sys.path[0:0] = [repo, here]
    sys.setrecursionlimit(4000)
    with open(spec_path) as f:
        spec = json.load(f)
    try:
        import resource

        # a generated program must not be able to exhaust the machine's memory
        lim = int(os.environ.get("VERIF_WORKER_MEM_GB", "6")) << 30
        resource.setrlimit(resource.RLIMIT_AS, (lim, lim))
    except Exception:
        pass
    faulthandler.enable()
    faulthandler.dump_traceback_later(spec.get("hang_dump_s", 300), exit=False)
    import ptera

    assert os.path.dirname(os.path.dirname(ptera.__file__)) == os.path.realpath(repo), (
        ptera.__file__,
        repo,
    )
    mod = importlib.import_module(f"checks.{prop.lower()}")
    res = mod.run_shard(spec)
    with open(out_path + ".tmp", "w") as f:
        json.dump(res, f, default=repr)
    os.replace(out_path + ".tmp", out_path)
    # skip interpreter teardown of ptera's atexit hooks on purpose-built garbage
    sys.stdout.flush()
    os._exit(0)


if __name__ == "__main__":
    main()
