"""Deterministic cooperative thread scheduler on sys.settrace (C08).

Worker threads install a trace function; inside selected functions of selected files every
`line` event (and, for selected functions, every `opcode` event) is a *schedule point* where
the thread parks until the controller hands it the turn.  Exactly one worker runs at a time, so
an execution is a pure function of the schedule:

    schedule = {"start": tid, "preempt": {global_step: tid, ...}, "after_done": [tid order]}

Default policy between preemptions: the running thread keeps running.  Locks found in the
monitored modules are replaced by cooperative locks whose contended acquire is itself a
schedule point that must hand the turn to another thread.
"""

import hashlib
import sys
import threading
import time


class Deadlock(Exception):
    pass


class Sched:
    def __init__(self, n, schedule, files, hot, opcode_fns=(), max_steps=200000, entry_fns=()):
        self.n = n
        self.schedule = schedule
        self.preempt = {int(k): v for k, v in schedule.get("preempt", {}).items()}
        # label rules: [tid, function name, n, to]: when thread tid ENTERS function name (frame
        # created, first line not yet run) for the n-th time, hand the turn to thread `to`
        self.label_rules = [list(r) for r in schedule.get("label_preempt", [])]
        self.entries = {}
        self.files = files
        self.hot = hot
        self.opcode_fns = set(opcode_fns)
        self.entry_fns = set(entry_fns)
        self.cv = threading.Condition()
        self.turn = None
        self.alive = set(range(n))
        self.started = set()
        self.steps = 0
        self.max_steps = max_steps
        self.trace = hashlib.sha1()
        self.switches = 0
        self.applied_preemptions = 0
        self.labels = None  # optional list of labels (for replay printing)
        self.error = None
        self.idents = {}

    # ---- called by worker threads ----------------------------------------
    def start_barrier(self, tid):
        with self.cv:
            self.started.add(tid)
            self.idents[threading.get_ident()] = tid
            if len(self.started) == self.n:
                self.turn = self.schedule.get("start", 0)
                self.cv.notify_all()
            while self.turn != tid:
                self.cv.wait()

    def _next_alive(self, tid):
        order = self.schedule.get("after_done") or list(range(self.n))
        for t in order:
            if t in self.alive and t != tid:
                return t
        return None

    def point(self, tid, label, must_switch=False):
        with self.cv:
            self.steps += 1
            if self.steps > self.max_steps:
                self.error = "step bound exceeded"
                raise Deadlock("step bound exceeded")
            self.trace.update(repr((tid, label)).encode())
            if self.labels is not None:
                self.labels.append((self.steps, tid, label))
            nxt = tid
            if self.steps in self.preempt:
                cand = self.preempt[self.steps]
                if cand in self.alive and cand != tid:
                    nxt = cand
                    self.applied_preemptions += 1
            if label and label[0] == "call":
                key = (tid, label[1])
                self.entries[key] = self.entries.get(key, 0) + 1
                for r in self.label_rules:
                    if r[0] == tid and r[1] == label[1] and r[2] == self.entries[key] and r[3] in self.alive and r[3] != tid:
                        nxt = r[3]
                        self.applied_preemptions += 1
            if must_switch and nxt == tid:
                # round-robin, so that the thread holding the lock eventually runs
                other = None
                for d in range(1, self.n + 1):
                    cand = (tid + d) % self.n
                    if cand in self.alive and cand != tid:
                        other = cand
                        break
                if other is None:
                    self.error = "lock held by a finished thread"
                    raise Deadlock("cooperative lock can never be acquired")
                nxt = other
            if nxt != tid:
                self.switches += 1
                self.turn = nxt
                self.cv.notify_all()
                while self.turn != tid:
                    self.cv.wait()

    def done(self, tid):
        with self.cv:
            self.alive.discard(tid)
            if self.alive:
                nxt = self._next_alive(tid)
                self.turn = nxt
            self.cv.notify_all()

    # ---- tracing ----------------------------------------------------------
    def make_tracer(self, tid):
        s = self

        def local(frame, event, arg):
            if event == "line":
                s.point(tid, (frame.f_code.co_name, frame.f_lineno))
            elif event == "opcode":
                s.point(tid, (frame.f_code.co_name, frame.f_lineno, frame.f_lasti))
            return local

        def glob(frame, event, arg):
            co = frame.f_code
            if co.co_filename in s.files and (s.hot is None or co.co_name in s.hot):
                if co.co_name in s.opcode_fns:
                    frame.f_trace_opcodes = True
                if co.co_name in s.entry_fns:
                    # the frame exists, its first line has not run yet
                    s.point(tid, ("call", co.co_name))
                return local
            return None

        return glob

    def digest(self):
        return self.trace.hexdigest()[:16]


class CoopLock:
    """Replacement for threading.Lock/RLock inside monitored modules: a contended acquire
    becomes a schedule point that must switch threads (so the scheduler cannot deadlock)."""

    def __init__(self, real, registry):
        self.real = real
        self.registry = registry  # object with .current() -> (sched, tid) or None

    def acquire(self, blocking=True, timeout=-1):
        cur = self.registry.current()
        if cur is None:
            return self.real.acquire(blocking, timeout)
        sched, tid = cur
        while not self.real.acquire(False):
            if not blocking:
                return False
            sched.point(tid, ("lock-wait",), must_switch=True)
        return True

    def release(self):
        self.real.release()

    __enter__ = acquire

    def __exit__(self, *a):
        self.release()


class Registry:
    def __init__(self):
        self.map = {}

    def set(self, sched, tid):
        self.map[threading.get_ident()] = (sched, tid)

    def clear(self):
        self.map.pop(threading.get_ident(), None)

    def current(self):
        return self.map.get(threading.get_ident())


def cooperative_locks(modules, registry):
    """Swap every Lock/RLock found as a module attribute or class attribute in `modules`."""
    lock_types = (type(threading.Lock()), type(threading.RLock()))
    n = 0
    for mod in modules:
        for name, val in list(vars(mod).items()):
            if isinstance(val, lock_types):
                setattr(mod, name, CoopLock(val, registry))
                n += 1
            elif isinstance(val, type) and getattr(val, "__module__", None) == mod.__name__:
                for an, av in list(vars(val).items()):
                    if isinstance(av, lock_types):
                        setattr(val, an, CoopLock(av, registry))
                        n += 1
    return n


def run_schedule(nthreads, bodies, schedule, files, hot, opcode_fns=(), registry=None, timeout=20, labels=False, entry_fns=()):
    """bodies: list of callables(tid) -> result.  Returns dict(results, errors, steps, digest, ...)."""
    s = Sched(nthreads, schedule, files, hot, opcode_fns, entry_fns=entry_fns)
    if labels:
        s.labels = []
    results = [None] * nthreads
    errors = []

    def worker(tid):
        if registry is not None:
            registry.set(s, tid)
        sys.settrace(s.make_tracer(tid))
        try:
            s.start_barrier(tid)
            results[tid] = bodies[tid](tid)
        except BaseException as e:  # noqa: BLE001
            import traceback

            errors.append((tid, type(e).__name__, "".join(traceback.format_exception(type(e), e, e.__traceback__))[-1500:]))
        finally:
            sys.settrace(None)
            if registry is not None:
                registry.clear()
            s.done(tid)

    ths = [threading.Thread(target=worker, args=(i,), daemon=True) for i in range(nthreads)]
    t0 = time.time()
    for t in ths:
        t.start()
    hung = False
    for t in ths:
        t.join(max(0.1, timeout - (time.time() - t0)))
        if t.is_alive():
            hung = True
    return {
        "results": results,
        "errors": errors,
        "steps": s.steps,
        "digest": s.digest(),
        "switches": s.switches,
        "applied": s.applied_preemptions,
        "hung": hung,
        "sched_error": s.error,
        "labels": s.labels,
    }
