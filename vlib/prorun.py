"""Loading and running generated programs (plain, twin, instrumented) and capturing outcomes."""

import gc
import importlib.util
import os
import re
import sys

_ADDR = re.compile(r" at 0x[0-9a-f]+")


def norm(v):
    try:
        r = repr(v)
    except Exception as e:  # pragma: no cover
        r = f"<repr failed {type(e).__name__}>"
    return _ADDR.sub("", r).replace("factory_T", "factory").replace("f_T", "f").replace("factory.<locals>.", "").replace("#WRAP.<locals>.", "")


def load_src(src, scratch, name):
    path = os.path.join(scratch, name + ".py")
    with open(path, "w") as f:
        f.write(src)
    spec = importlib.util.spec_from_file_location(name, path)
    mod = importlib.util.module_from_spec(spec)
    sys.modules[name] = mod
    try:
        spec.loader.exec_module(mod)
    finally:
        sys.modules.pop(name, None)
    return mod


def exc_outcome(e):
    cls = type(e).__name__
    if isinstance(e, NameError):
        # ptera's PteraNameError is a documented NameError subclass; messages differ
        return ("raise", cls, getattr(e, "varname", None) or getattr(e, "name", None) or "")
    return ("raise", cls, norm(e.args))


def recording_hook(mod):
    def rec(fn, kind, name, v):
        mod.EV.append((fn, kind, name, norm(v)))
        return v

    return rec


def drive_generator(it, script, on_step=None):
    out = []
    done = False
    for op in script:
        try:
            if op[0] == "next":
                out.append(("yield", norm(next(it))))
            elif op[0] == "send":
                out.append(("yield", norm(it.send(op[1]))))
            elif op[0] == "throw":
                cls = {"ValueError": ValueError, "KeyError": KeyError, "GeneratorExit": GeneratorExit}[op[1]]
                if len(op) > 2:
                    import warnings

                    with warnings.catch_warnings():
                        warnings.simplefilter("ignore", DeprecationWarning)
                        out.append(("yield", norm(it.throw(cls, 77) if op[2] == "value" else it.throw(cls, (77, 78)))))
                else:
                    out.append(("yield", norm(it.throw(cls(77)))))
            elif op[0] == "close":
                it.close()
                out.append(("closed",))
            elif op[0] == "exhaust":
                for _ in range(60):
                    out.append(("yield", norm(next(it))))
                out.append(("too-long",))
                it.close()
            elif op[0] == "drop":
                del it
                gc.collect()
                out.append(("dropped",))
                done = True
                it = None
                break
        except StopIteration as e:
            out.append(("stop", norm(e.value)))
        except BaseException as e:
            out.append(exc_outcome(e))
        if on_step:
            on_step(op)
    if it is not None:
        try:
            it.close()
            out.append(("final-close",))
        except BaseException as e:
            out.append(("final-close",) + exc_outcome(e))
    return out


def run_call(mod, fn, argi, script=None, hook=None, cell_owner="f"):
    """Call fn (a function object) on argument set argi; return outcome dict."""
    mod.__reset__()
    mod.HOOK[0] = hook
    args, kwargs = mod.make_args(argi)
    try:
        if script is None:
            r = fn(*args, **kwargs)
            result = ("return", norm(r), type(r).__name__)
        else:
            it = fn(*args, **kwargs)
            result = ("gen", drive_generator(it, script))
            del it
    except BaseException as e:
        result = exc_outcome(e)
    return {
        "result": result,
        "log": list(mod.LOG),
        "args": norm(args) + norm(sorted(kwargs.items())),
        "G2": norm(mod.G2),
        "cells": cells_of(getattr(mod, cell_owner, None)),
        "events": list(mod.EV),
    }


def cells_of(fn):
    """Values of the closure cells of the program's function object (writes through `nonlocal`
    are visible to the enclosing factory, so they are externally visible side effects)."""
    out = []
    for name, cell in zip(getattr(getattr(fn, "__code__", None), "co_freevars", ()), getattr(fn, "__closure__", None) or ()):
        try:
            out.append((name, norm(cell.cell_contents)))
        except ValueError:
            out.append((name, "<empty>"))
    return sorted(out)


def same_outcome(a, b):
    diffs = []
    for k in ("result", "log", "args", "G2", "cells"):
        if a[k] != b[k]:
            diffs.append(k)
    return diffs


def describe_diff(a, b, diffs):
    out = {}
    for k in diffs:
        if k == "log":
            i = 0
            while i < min(len(a[k]), len(b[k])) and a[k][i] == b[k][i]:
                i += 1
            out[k] = {"first_difference_at": i, "plain": a[k][i : i + 3], "other": b[k][i : i + 3], "len_plain": len(a[k]), "len_other": len(b[k])}
        else:
            out[k] = {"plain": a[k], "other": b[k]}
    return out
