"""Shared plumbing for the ptera runtime-monitoring checks.

A check module (checks/cNN.py) exposes:

    PROPERTY      "C03"
    LEVEL         "exploration"
    RULE          text: how cases are generated, what makes one non-trivial / distinct
    ASSUMPTIONS   list[str]
    MECHANISMS    {mechanism-id: text}   genuine-defect mechanisms this check can classify
    MIN_DECIDING  {tier: int}            fewer deciding monitor evaluations => inconclusive
    plan(tier, seed, known)      -> list of shard specs (json-able dicts)
    run_shard(spec)              -> ShardResult.as_dict()
    replay(case)                 -> prints witness, returns list of violation dicts

Everything a shard does is a pure function of its spec (which carries tier, seed, the
case index range and the set of known mechanisms), so a replay file can re-run one case.
"""

import hashlib
import json
import os
import random
import shutil
import subprocess
import sys
import tempfile
import time
import traceback

VERIF = os.path.dirname(os.path.dirname(os.path.abspath(__file__)))
REPO = os.environ.get("PTERA_REPO", "/repo")
PY = os.environ.get("PTERA_PY", "/venv/bin/python")
WORK = os.path.join(VERIF, "work")
NCPU = int(os.environ.get("VERIF_JOBS", "16"))


def stable_hash(obj):
    s = json.dumps(obj, sort_keys=True, default=repr)
    return hashlib.sha1(s.encode()).hexdigest()[:16]


def rng_for(*parts):
    """Deterministic Random for (property, seed, index, ...) independent of hash seed."""
    h = hashlib.sha256(repr(parts).encode()).digest()
    return random.Random(int.from_bytes(h[:8], "big"))


class ShardResult:
    """Accumulates what one shard observed."""

    MAX_SAMPLES = 4
    MAX_VIOLATIONS = 5

    def __init__(self):
        self.evaluations = 0  # cases executed
        self.deciding = 0  # deciding-monitor evaluations (oracle comparisons)
        self.nontrivial = set()  # hashes of distinct non-trivial cases
        self.violations = []  # list of replayable case dicts (with 'why')
        self.nviolations = 0
        self.findings = {}  # mechanism -> {"count": n, "example": ...}
        self.samples = []
        self.counters = {}
        self.notes = []

    def count(self, key, n=1):
        self.counters[key] = self.counters.get(key, 0) + n

    def sample(self, obj):
        if len(self.samples) < self.MAX_SAMPLES:
            self.samples.append(obj)

    def nontrivial_case(self, signature):
        self.nontrivial.add(
            signature if isinstance(signature, str) else stable_hash(signature)
        )

    def violation(self, case, why):
        self.nviolations += 1
        if len(self.violations) < self.MAX_VIOLATIONS:
            self.violations.append({"case": case, "why": why})

    def finding(self, mechanism, example):
        d = self.findings.setdefault(mechanism, {"count": 0, "example": example})
        d["count"] += 1

    def as_dict(self):
        return {
            "evaluations": self.evaluations,
            "deciding": self.deciding,
            "nontrivial": sorted(self.nontrivial),
            "violations": self.violations,
            "nviolations": self.nviolations,
            "findings": self.findings,
            "samples": self.samples,
            "counters": self.counters,
            "notes": self.notes[:20],
        }


def load_known():
    path = os.path.join(VERIF, "known_findings.json")
    if not os.path.exists(path):
        return []
    with open(path) as f:
        return json.load(f)["findings"]


def known_mechanisms(prop):
    return sorted(
        e["mechanism"]
        for e in load_known()
        if e["property"] == prop and e["status"] == "known"
    )


def scratch_dir(tag):
    os.makedirs(WORK, exist_ok=True)
    return tempfile.mkdtemp(prefix=f"{tag}-", dir=WORK)


def worker_env():
    env = dict(os.environ)
    env["PYTHONDONTWRITEBYTECODE"] = "1"
    env["PYTHONHASHSEED"] = "0"
    env["PYTHONPATH"] = REPO + os.pathsep + VERIF
    env["PTERA_VERIF"] = "1"
    return env


def run_shards(prop, specs, timeout):
    """Run specs in worker subprocesses, NCPU at a time. Returns list of
    (spec, result-dict | None, error-text | None)."""
    wdir = scratch_dir(prop)
    procs = []
    pending = list(enumerate(specs))
    results = [None] * len(specs)
    running = {}
    env = worker_env()
    try:
        while pending or running:
            while pending and len(running) < NCPU:
                i, spec = pending.pop(0)
                sp = os.path.join(wdir, f"spec{i}.json")
                op = os.path.join(wdir, f"out{i}.json")
                spec = dict(spec)
                spec["scratch"] = os.path.join(wdir, f"s{i}")
                spec.setdefault("hang_dump_s", timeout + 60)
                os.makedirs(spec["scratch"], exist_ok=True)
                with open(sp, "w") as f:
                    json.dump(spec, f)
                errf = open(os.path.join(wdir, f"err{i}.txt"), "w+")
                p = subprocess.Popen(
                    [PY, os.path.join(VERIF, "vlib", "worker.py"), prop, sp, op],
                    env=env,
                    cwd=VERIF,
                    stdout=errf,
                    stderr=subprocess.STDOUT,
                )
                running[i] = (p, time.time(), op, errf, spec)
            time.sleep(0.02)
            for i in list(running):
                p, t0, op, errf, spec = running[i]
                rc = p.poll()
                if rc is None:
                    if time.time() - t0 > timeout:
                        p.kill()
                        p.wait()
                        errf.seek(0)
                        results[i] = (spec, None, "watchdog: " + errf.read()[-3000:])
                        errf.close()
                        del running[i]
                    continue
                errf.seek(0)
                err = errf.read()
                errf.close()
                del running[i]
                if rc == 0 and os.path.exists(op):
                    with open(op) as f:
                        results[i] = (spec, json.load(f), None)
                else:
                    crash = os.path.join(WORK, f"crash-{prop}-{i}-{int(time.time())}.txt")
                    with open(crash, "w") as cf:
                        cf.write(json.dumps(spec) + "\n" + err)
                    results[i] = (spec, None, f"worker exit {rc} (full output in {crash}): " + err[-3000:])
    finally:
        for i, (p, *_rest) in running.items():
            p.kill()
        shutil.rmtree(wdir, ignore_errors=True)
    return results


def write_replay(prop, case, why):
    d = os.path.join(VERIF, "replays" if not os.environ.get("VERIF_NOEVIDENCE") else "work/replays-scratch", prop)
    os.makedirs(d, exist_ok=True)
    name = stable_hash([case, why]) + ".json"
    path = os.path.join(d, name)
    with open(path, "w") as f:
        json.dump({"property": prop, "why": why, "case": case}, f, indent=1, default=repr)
    return path


def main_check(mod, tier, seed, replay_path=None):
    prop = mod.PROPERTY
    t0 = time.time()
    if replay_path:
        with open(replay_path) as f:
            data = json.load(f)
        sys.path[0:0] = [REPO, VERIF]
        vs = mod.replay(data["case"])
        for v in vs or []:
            print("REPLAY-VIOLATION:", json.dumps(v, default=repr)[:4000])
        print(f"replay: {len(vs or [])} violation(s) reproduced")
        return 1 if vs else 0

    known = known_mechanisms(prop)
    specs = mod.plan(tier, seed, known)
    for s in specs:
        s.setdefault("tier", tier)
        s.setdefault("seed", seed)
        s.setdefault("known", known)
    timeout = getattr(mod, "SHARD_TIMEOUT", {"quick": 600, "thorough": 3600})[tier]
    results = run_shards(prop, specs, timeout)

    agg = ShardResult()
    nontrivial = set()
    errors = []
    findings = {}
    violations = []
    nviol = 0
    for spec, res, err in results:
        if res is None:
            errors.append(err)
            continue
        agg.evaluations += res["evaluations"]
        agg.deciding += res["deciding"]
        nontrivial.update(res["nontrivial"])
        nviol += res["nviolations"]
        violations.extend(res["violations"])
        for k, v in res["counters"].items():
            if k.startswith("max_"):
                agg.counters[k] = max(agg.counters.get(k, 0), v)
            else:
                agg.counters[k] = agg.counters.get(k, 0) + v
        for m, d in res["findings"].items():
            e = findings.setdefault(m, {"count": 0, "example": d["example"]})
            e["count"] += d["count"]
        for s in res["samples"]:
            if len(agg.samples) < 6:
                agg.samples.append(s)
        agg.notes.extend(res.get("notes", []))

    status = 0
    lines = []
    # findings: only mechanisms listed as known may be reported as KNOWN-FINDING.
    for m in sorted(findings):
        if m in known:
            lines.append(
                f"KNOWN-FINDING: property={prop} {m} ({findings[m]['count']} case(s)): "
                + mod.MECHANISMS.get(m, "")
            )
        else:
            # a classified mechanism that is not listed is an ordinary violation
            nviol += findings[m]["count"]
            violations.append(
                {"case": findings[m]["example"], "why": f"unlisted mechanism {m}"}
            )
    for m in known:
        if m not in findings:
            lines.append(
                f"KNOWN-FINDING-GONE: property={prop} {m} did not reproduce in this run"
            )
    for v in violations[:5]:
        path = write_replay(prop, v["case"], v["why"])
        lines.append(f"VIOLATION property={prop} replay={path}")
        lines.append("  why: " + json.dumps(v["why"], default=repr)[:1500])
    if nviol:
        status = 1

    min_dec = getattr(mod, "MIN_DECIDING", {}).get(tier, 1)
    inconclusive = None
    if errors:
        inconclusive = f"{len(errors)} worker(s) failed: {errors[0][-800:]}"
    elif agg.deciding < min_dec:
        inconclusive = f"deciding monitor evaluated {agg.deciding} < {min_dec}"
    if status == 0 and inconclusive:
        status = 2
        lines.append(f"INCONCLUSIVE property={prop} reason={inconclusive}")
    elif inconclusive:
        lines.append(f"NOTE worker problems: {inconclusive}")

    wall = time.time() - t0
    cov = {
        "evaluations": agg.evaluations,
        "distinct_nontrivial": len(nontrivial),
        "rule": mod.RULE,
        "samples": agg.samples or ["<none>"],
        "deciding_monitor_evaluations": agg.deciding,
        "counters": agg.counters,
        "known_findings_reproduced": {m: findings[m]["count"] for m in findings if m in known},
        "shards": len(specs),
        "worker_errors": len(errors),
    }
    if getattr(mod, "EXHAUSTIVE", {}).get(tier):
        cov["exhaustive"] = True
    ev = {
        "property_id": prop,
        "tier": tier,
        "seed": seed,
        "level": mod.LEVEL,
        "coverage": cov,
        "assumptions": list(mod.ASSUMPTIONS),
        "wall_s": round(wall, 2),
        "violations": nviol,
        "verdict": {0: "held-on-observed", 1: "violated", 2: "inconclusive"}[status],
    }
    if not os.environ.get("VERIF_NOEVIDENCE"):
        os.makedirs(os.path.join(VERIF, "evidence"), exist_ok=True)
        with open(os.path.join(VERIF, "evidence", f"{prop}.json"), "w") as f:
            json.dump(ev, f, indent=1, default=repr)
    for ln in lines:
        print(ln)
    for note in agg.notes[:5]:
        print("  note:", json.dumps(note, default=repr)[:600])
    print(
        f"{prop} tier={tier} seed={seed}: cases={agg.evaluations} deciding={agg.deciding} "
        f"distinct_nontrivial={len(nontrivial)} violations={nviol} "
        f"verdict={ev['verdict']} wall={wall:.1f}s"
    )
    if agg.counters:
        print("  counters:", json.dumps(agg.counters, sort_keys=True))
    return status


def split_range(n, parts):
    """Split range(n) into <= parts contiguous (start, count) chunks."""
    parts = max(1, min(parts, n))
    base, extra = divmod(n, parts)
    out, s = [], 0
    for i in range(parts):
        c = base + (1 if i < extra else 0)
        if c:
            out.append((s, c))
        s += c
    return out


def exc_sig(e):
    return type(e).__name__


def fmt_exc(e):
    return "".join(traceback.format_exception(type(e), e, e.__traceback__))[-2500:]
