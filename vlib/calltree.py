"""Call-tree program family, selector generator and reference matchers (C03, C07; reused by
C05/C08/C09/C17).

The *program* is a family of NF mutually calling functions whose calls are driven by a
script argument (a tree: node = [function index, children, raises]).  Every binding stores
a globally unique integer and the program appends its own log:

    ('enter', act, parent_act, fn)   ('bind', act, var, value)   ('exit', act)

The *reference matchers* below are written from the property statements (C03/C07) over that
log only; they never look at ptera state.
"""

import collections
import importlib.util
import itertools
import os


def family_source(nf, extra_same_name=True):
    src = [
        "CNT = [0]",
        "LOG = []",
        "ACT = [0]",
        "def uid():",
        "    CNT[0] += 1",
        "    return CNT[0]",
        "def reset():",
        "    CNT[0] = 0; ACT[0] = 0; del LOG[:]",
        "",
    ]
    for i in range(nf):
        src += [
            f"def F{i}(node, parent=None, q=0):",
            "    ACT[0] += 1",
            "    me = ACT[0]",
            f"    LOG.append(('enter', me, parent, {i}))",
            "    LOG.append(('bind', me, 'q', q))",
            "    try:",
            f"        a{i} = uid()",
            f"        LOG.append(('bind', me, 'a{i}', a{i}))",
            "        v = uid()",
            "        LOG.append(('bind', me, 'v', v))",
            "        for child in node[1]:",
            f"            c{i} = uid()",
            f"            LOG.append(('bind', me, 'c{i}', c{i}))",
            "            try:",
            "                DISPATCH[child[0]](child, me, uid())",
            "            except ValueError:",
            "                pass",
            f"            b{i} = uid()",
            f"            LOG.append(('bind', me, 'b{i}', b{i}))",
            "        if node[2]:",
            "            raise ValueError(me)",
            "        return me",
            "    finally:",
            "        LOG.append(('exit', me))",
            "",
        ]
    src.append("DISPATCH = {" + ", ".join(f"{i}: F{i}" for i in range(nf)) + "}")
    return "\n".join(src) + "\n"


def fvars(i):
    return [f"a{i}", f"b{i}", f"c{i}", "v", "q"]


def load_family(scratch, name, nf):
    path = os.path.join(scratch, name + ".py")
    with open(path, "w") as f:
        f.write(family_source(nf))
    spec = importlib.util.spec_from_file_location(name, path)
    mod = importlib.util.module_from_spec(spec)
    spec.loader.exec_module(mod)
    return vars(mod)


# ------------------------------------------------------------------ generators


def rand_tree(rnd, nf, budget, p_more=0.6, p_raise=0.0):
    f = rnd.randrange(nf)
    kids = []
    budget[0] -= 1
    while budget[0] > 0 and rnd.random() < p_more:
        kids.append(rand_tree(rnd, nf, budget, p_more, p_raise))
    return [f, kids, 1 if rnd.random() < p_raise else 0]


def all_trees(nf, n):
    """Every call tree with exactly n activations over nf functions (no raising)."""

    def forests(k):
        # ordered forests with k nodes
        if k == 0:
            yield []
            return
        for first in range(1, k + 1):
            for t in trees(first):
                for rest in forests(k - first):
                    yield [t] + rest

    def trees(k):
        for f in range(nf):
            for kids in forests(k - 1):
                yield [f, kids, 0]

    return trees(n)


def tree_size(t):
    return 1 + sum(tree_size(k) for k in t[1])


# selector: ['call', fn, [vars], [children]]


def rand_sel(rnd, nf, depth, maxkids=2, p_cap=0.4):
    f = rnd.randrange(nf)
    caps = [v for v in fvars(f) if rnd.random() < p_cap]
    children = []
    if depth > 0:
        for _ in range(rnd.choice([0, 1, 1, 2][: maxkids + 2])):
            children.append(rand_sel(rnd, nf, depth - 1, maxkids, p_cap))
    return ["call", f, caps, children]


def all_calls(sel, path=()):
    yield sel, path
    for i, c in enumerate(sel[3]):
        yield from all_calls(c, path + (i,))


def place_focus(rnd, sel):
    calls = [(s, p) for s, p in all_calls(sel) if s[2]]
    if not calls:
        sel[2].append(fvars(sel[1])[0])
        calls = [(sel, ())]
    s, p = rnd.choice(calls)
    v = rnd.choice(s[2])
    return list(p), v


def alias(v, path):
    return f"{v}p{''.join(map(str, path))}"


def all_names(sel, path=()):
    out = [alias(v, path) for v in sel[2]]
    for i, c in enumerate(sel[3]):
        out += all_names(c, path + (i,))
    return out


def render(sel, fpath=None, fvar=None, path=(), chain=False):
    """Render with aliases that make every capture name unique.  chain=True renders the
    focus path with '>' when the path child is the last child / the focus is the last capture."""
    fpath = None if fpath is None else tuple(fpath)
    parts = []
    tail = None
    caps = list(sel[2])
    kids = list(enumerate(sel[3]))
    on_path = fpath is not None and fpath[: len(path)] == path
    if chain and on_path:
        if len(fpath) == len(path):
            if caps and caps[-1] == fvar and caps.count(fvar) == 1:
                caps = caps[:-1]
                tail = f"{fvar} as {alias(fvar, path)}"
        else:
            nxt = fpath[len(path)]
            if kids and kids[-1][0] == nxt:
                kids = kids[:-1]
                tail = render(sel[3][nxt], fpath, fvar, path + (nxt,), chain=True)
    for v in caps:
        s = f"{v} as {alias(v, path)}"
        if fpath is not None and path == fpath and v == fvar:
            s = "!" + s
        parts.append(s)
    for i, c in kids:
        parts.append(render(c, fpath, fvar, path + (i,), chain=False))
    out = f"F{sel[1]}({', '.join(parts)})"
    if tail is not None:
        out += " > " + tail
    return out


# ------------------------------------------------------------------ log analysis


class Log:
    def __init__(self, log):
        self.parent = {}
        self.fnof = {}
        self.binds = []  # (t, act, var, val)
        self.exits = []  # act in exit order
        self.by_act_var = collections.defaultdict(list)  # (act, var) -> [(t, val)]
        self.kids = collections.defaultdict(list)
        for t, e in enumerate(log):
            if e[0] == "enter":
                self.parent[e[1]] = e[2]
                self.fnof[e[1]] = e[3]
                if e[2] is not None:
                    self.kids[e[2]].append(e[1])
            elif e[0] == "bind":
                self.binds.append((t, e[1], e[2], e[3]))
                self.by_act_var[(e[1], e[2])].append((t, e[3]))
            elif e[0] == "exit":
                self.exits.append(e[1])
        self._desc = {}

    def ancestors(self, a):
        r = []
        while self.parent[a] is not None:
            a = self.parent[a]
            r.append(a)
        return r  # nearest first

    def descendants(self, a):
        if a not in self._desc:
            out = []
            stack = list(self.kids[a])
            while stack:
                b = stack.pop()
                out.append(b)
                stack.extend(self.kids[b])
            self._desc[a] = sorted(out)
        return self._desc[a]


def reference_immediate(log, sel, fpath, fvar):
    """C03: {focus value: [event dict, ...]} and the ordered list of focus values."""
    L = log if isinstance(log, Log) else Log(log)
    fpath = tuple(fpath)
    levels = [sel]
    cur = sel
    for i in fpath:
        cur = cur[3][i]
        levels.append(cur)
    k = len(levels)

    def collect_sibling(subsel, spath, under, t, out):
        # latest value (<= t) bound in any activation matching subsel below `under`
        for b in L.descendants(under):
            if L.fnof[b] != subsel[1]:
                continue
            for v in subsel[2]:
                cands = [(tt, val) for (tt, val) in L.by_act_var.get((b, v), ()) if tt <= t]
                if cands:
                    key = alias(v, spath)
                    best = max(cands)
                    if key not in out or out[key][0] < best[0]:
                        out[key] = best
            for i, c in enumerate(subsel[3]):
                collect_sibling(c, spath + (i,), b, t, out)

    events = collections.defaultdict(list)
    order = []
    for (t, H, var, val) in L.binds:
        if var != fvar or L.fnof[H] != levels[-1][1]:
            continue
        chain_rev = list(reversed([H] + L.ancestors(H)))  # outermost first
        idxs = range(len(chain_rev) - 1)
        for combo in itertools.combinations(idxs, k - 1):
            acts = [chain_rev[i] for i in combo] + [H]
            if any(L.fnof[a] != lv[1] for a, lv in zip(acts, levels)):
                continue
            ev = {}
            for li, (a, lv) in enumerate(zip(acts, levels)):
                lpath = fpath[:li]
                for v in lv[2]:
                    if li == k - 1 and v == fvar:
                        continue
                    cands = [(tt, vv) for (tt, vv) in L.by_act_var.get((a, v), ()) if tt < t]
                    if cands:
                        ev[alias(v, lpath)] = max(cands)
                for ci, c in enumerate(lv[3]):
                    if li < k - 1 and ci == fpath[li]:
                        continue
                    collect_sibling(c, lpath + (ci,), a, t, ev)
            ev = {kk: vv[1] for kk, vv in ev.items()}
            ev[alias(fvar, fpath)] = val
            events[val].append(ev)
            order.append(val)
    return events, order


def _collect_total(L, subsel, spath, a, out):
    """All values of subsel's captures in activation a and, per embedding, below it."""
    for v in subsel[2]:
        for (tt, val) in L.by_act_var.get((a, v), ()):
            out[alias(v, spath)].append((tt, val))
    for i, c in enumerate(subsel[3]):
        for b in L.descendants(a):
            if L.fnof[b] == c[1]:
                _collect_total(L, c, spath + (i,), b, out)


def reference_total(log, sel):
    """C07: list (in exit order of root activations) of (root act, record)."""
    L = log if isinstance(log, Log) else Log(log)
    names = set(all_names(sel))
    recs = []
    for a in L.exits:
        if L.fnof[a] != sel[1]:
            continue
        out = collections.defaultdict(list)
        _collect_total(L, sel, (), a, out)
        if set(out) == names:
            recs.append((a, {k: [v for _, v in sorted(vs)] for k, vs in out.items()}))
    return recs


def reference_forced_total(log, sel, fpath, fvar):
    """C07 second sentence: per root activation (exit order), the multiset of records, one per
    (embedding of the focus path below that root, binding of the focus variable)."""
    L = log if isinstance(log, Log) else Log(log)
    fpath = tuple(fpath)
    names = set(all_names(sel))
    levels = [sel]
    cur = sel
    for i in fpath:
        cur = cur[3][i]
        levels.append(cur)
    k = len(levels)
    per_root = []
    for A in L.exits:
        if L.fnof[A] != sel[1]:
            continue
        recs = []

        def embed(li, a, acts):
            if li == k - 1:
                yield acts
                return
            nxt = levels[li + 1]
            for b in L.descendants(a):
                if L.fnof[b] == nxt[1]:
                    yield from embed(li + 1, b, acts + [b])

        for acts in embed(0, A, [A]):
            H = acts[-1]
            for (tt, val) in L.by_act_var.get((H, fvar), ()):
                out = collections.defaultdict(list)
                for li, (a, lv) in enumerate(zip(acts, levels)):
                    lpath = fpath[:li]
                    for v in lv[2]:
                        if li == k - 1 and v == fvar:
                            continue
                        for (t2, v2) in L.by_act_var.get((a, v), ()):
                            out[alias(v, lpath)].append((t2, v2))
                    for ci, c in enumerate(lv[3]):
                        if li < k - 1 and ci == fpath[li]:
                            continue
                        for b in L.descendants(a):
                            if L.fnof[b] == c[1]:
                                _collect_total(L, c, lpath + (ci,), b, out)
                out[alias(fvar, fpath)].append((tt, val))
                if set(out) == names:
                    recs.append({kk: [v for _, v in sorted(vs)] for kk, vs in out.items()})
        per_root.append((A, recs))
    return per_root


def canon_events(m):
    return {k: sorted(sorted(d.items()) for d in v) for k, v in m.items()}


def run_tree(ns, tree):
    """Call the family on a tree from the top; swallow the scripted ValueError."""
    try:
        ns["DISPATCH"][tree[0]](tree)
    except ValueError:
        pass
