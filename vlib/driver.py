import argparse
import importlib
import os
import sys

HERE = os.path.dirname(os.path.dirname(os.path.abspath(__file__)))
sys.path[0:0] = [HERE]
from vlib import common  # noqa: E402


def main():
    ap = argparse.ArgumentParser()
    ap.add_argument("property")
    ap.add_argument("--tier", default=None, choices=["quick", "thorough"])
    ap.add_argument("--replay", default=None)
    a = ap.parse_args()
    # an explicit --tier wins; VERIF_TIER is used when the flag is absent
    tier = a.tier or os.environ.get("VERIF_TIER") or "quick"
    if tier not in ("quick", "thorough"):
        tier = "quick"
    try:
        seed = int(os.environ.get("VERIF_SEED", "0"))
    except ValueError:
        seed = 0
    os.chdir(HERE)
    mod = importlib.import_module(f"checks.{a.property.lower()}")
    sys.exit(common.main_check(mod, tier, seed, a.replay))


if __name__ == "__main__":
    main()
