claim(
    "C12",
    "exhaustive differential test of stock predicates against an arithmetic reference + differential stream monitor (constrained vs unconstrained selector) on generated loop programs",
    "Part A enumerates every integer argument combination in a bounded box and compares each stock predicate with the arithmetic definition in the property; Part B runs generated nested-loop programs under constrained selectors and checks the delivered stream equals the unconstrained stream filtered by the reference predicate, and that overrides apply under the same condition. Held-on-observed only.",
    "Trusts: CPython integer arithmetic; that the unconstrained selector's stream is correct (that is C02/C03's job); throttle is only checked for plumbing.",
)
