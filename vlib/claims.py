claim(
    "C12",
    "exhaustive differential test of stock predicates against an arithmetic reference + differential stream monitor (constrained vs unconstrained selector) on generated loop programs",
    "Part A enumerates every integer argument combination in a bounded box and compares each stock predicate with the arithmetic definition in the property; Part B runs generated nested-loop programs under constrained selectors and checks the delivered stream equals the unconstrained stream filtered by the reference predicate, and that overrides apply under the same condition. Held-on-observed only.",
    "Trusts: CPython integer arithmetic; that the unconstrained selector's stream is correct (that is C02/C03's job); throttle is compared with a harness-side model of the stateful predicate (RefThrottle), not with ptera's own class; part L (same capture name at two levels) routes the inner-level condition to the known-finding stream condition-on-inner-capture-evaluated-on-same-named-outer-capture.",
)
claim(
    "C15",
    "differential monitor over enumerated + random abstract selectors rendered in every documented spelling; reference desugarer; identity (interning) oracle",
    "Every abstract selector from a bounded grammar (depth<=2 quick / <=3 thorough, width<=3, all operand kinds) is rendered in 14 spellings (documented notations, grouping parentheses around arguments and around leading argument sequences) x 3 whitespace variants; all must parse to one interned object whose structure equals an independent reference desugaring, whose focus is the marked element, and which is identical to an object built through the public constructors. Sampled + systematic exploration, not a proof over the unbounded grammar.",
    "Trusts my reading of the documented notation (vlib/selgen.py); capture reorderings are not claimed equivalent; select()-level identity only for literal '=' values.",
)
claim(
    "C18",
    "exhaustive short-string enumeration + grammar-based mutation fuzzing with an outcome-class oracle and a logical step-bound monitor on the precedence comparator",
    "All strings of <=4 (quick) / <=5 (thorough) tokens over a 37-token alphabet are compiled with parse() (and select() on a deterministic slice), plus token-level mutations of valid selectors through parse/select/probing; every outcome must be a Selector, SyntaxError with offset, SelectorError, or the documented TypeError; termination is decided by a step counter on the parser's comparator. Semantically bad templates must be refused at probe creation/activation. Exhaustive within the stated length bound only.",
    "CodeNotFoundError is accepted from select()/probing() for unresolvable absolute references (unit-tested behaviour); ValueError('Unsupported focus pattern') accepted from probing(); environment callables are total.",
)
claim(
    "C03",
    "trace monitor: events of the real Immediate/probing machinery vs an independent embedding-enumerating reference matcher over the generated program's own call-tree log",
    "Bounded-exhaustive (all call trees up to 4/6 activations over 3 functions x systematic chain selectors) plus seeded random (trees up to 12/16 activations, selectors with siblings, depth <= 4) exploration; every focus binding's event multiset and the cross-binding order are compared with a reference written from the statement. Held-on-observed.",
    "Reference matcher in vlib/calltree.py; unique values make histories unambiguous; sibling captures read inclusively of the triggering binding.",
)
claim(
    "C05",
    "history monitor with shadow state: random + bounded-exhaustive activation histories, invariants on instrumentation counters / installed code / handler collection / global_probes evaluated after every step, streams compared with reference matcher",
    "Random histories (<=12/20 ops over 7 overlapping probe specs incl. total, overridable-declining, multi-selector, raw overlay blocks, refused activations, exceptions, non-LIFO global deactivation) and all histories up to length 4/5 over a 3-probe universe; after every step the exactly-once streams and the 'no trace' state invariants are asserted against a shadow model. Held-on-observed.",
    "Expected streams rely on the C03/C07 reference matchers; probes are (de)activated at top level of one thread/context.",
)
claim(
    "C07",
    "trace monitor: records of Total probes (plain and forced) timestamped against the program's log vs a reference record builder",
    "Seeded random exploration of (call trees incl. recursion, several outermost calls, raising activations, never-bound captures) x (focus-free selectors with siblings; focused selectors forced to total); records, their order, and the moment of delivery (right at the outermost call's exit) are compared with a reference from the statement. Held-on-observed.",
    "Per-embedding multiplicity for nested matches; forced-total records compared as a multiset per outermost call.",
)
claim(
    "C09",
    "history monitor: driver histories over instrumented generators with the handler collection compared after every step against a no-leak model, and per-call event expectations for the driver's own calls",
    "Seeded random histories (<=10/16 ops: overlays entered/left, generators created, advanced, sent to, closed, dropped+gc, zipped, exhausted, in LIFO and non-LIFO completion orders, driver at top level or inside an instrumented outer()) are run against the real code; after every step HandlerCollection.current must equal the model's handler list by identity, and each driver call of g must fire exactly the selectors that do not require the generator as ancestor. Held-on-observed.",
    "Events of the generators' own inner calls are not asserted; overlays are entered/left LIFO by the driver; the generator family uses plain `yield`, `yield from` a sub-generator (which answers a thrown ValueError with a value; histories throw into generators) and `yield from` a plain iterator.",
)
claim(
    "C17",
    "history monitor with completion counters: every pipeline stage subscribed through on_next/on_completed/on_error counters and compared after every step with a reference computed from the events delivered during the active period",
    "Seeded random histories (<=14/22 ops over two probes: attach 12 kinds of reducing / non-reducing stages before, during and after activation, activate via with/global/child, calls inside and outside the active period, deactivate normally/by exception/explicitly, re-activation attempts through root and child) against the real giving/ptera pipeline; exactly-once completion, silence outside the active period, late-attachment cut-off, and 'refused re-activation changes nothing' are asserted after every step. Held-on-observed.",
    "Event reference hand-derived for a 5-line program; reductions over an empty period only required to terminate once; double deactivation not generated; failing result handlers raise RuntimeError or a BaseException subclass; completion at interpreter exit is observed on three child interpreters.",
)
claim(
    "C14",
    "history monitor over generated modules: reference resolution and by-name/by-reference stream equality checked after every step against a shadow of the active set",
    "Generated modules with every placement (module level, methods, nested classes, static methods, factory closures 1-2 deep, decorated functions/methods) x random histories of activate-by-name / activate-by-reference / deactivate in any order / call / resolve; select(refstring(fn)) must be the very function and streams by reference must equal streams by name, before, during and after probing. Held-on-observed.",
    "One closure per factory; references of decorated functions denote the undecorated def; placements include functions tooled in place (decorator and call form).",
)
claim(
    "C13",
    "differential monitor: events (value, id(receiver)) of class-form and object-form method selectors vs an identity-based reference over random populations and call sequences",
    "Seeded random populations (plain / value-equal / unhashable / list and dict subclasses / inheriting / overriding / decorated / property classes, with equal-but-distinct twins) x selectors through class, object, dotted path, decorator and property x random call sequences incl. a namesake module-level function; each selector's stream must be exactly the calls executing that function (class form) or whose receiver IS the object (object form, receiver reported). Held-on-observed.",
    "Unique call arguments identify calls; properties are selected through the class; a hand-written battery covers two receiver conditions side by side under one call (all ordered pairs of three instances).",
)
claim(
    "C01",
    "differential execution monitor: generated programs run untouched vs under each instrumentation configuration, comparing result / exception / generator protocol trace / ordered side-effect log / argument, global and closure-cell state; plus an InteractLog monitor on Interactor.interact",
    "Seeded random exploration of (program, input, configuration) triples from a generator covering every statement form in the quantifier (67 feature flags incl. non-indexable and one-shot iterables, starred/nested targets, side-effecting sub-expressions, generators driven by next/send/throw/close/drop scripts, closures with nonlocal writes) under tooled / tooled.inplace / 1-3 non-overriding probes over variable subsets (all subsets for <=5 names in the thorough tier) / raw overlays / after deactivation. Held-on-observed.",
    "Plain and twin renderings are cross-checked for equal outcomes by the generator's self-test; exception messages and function reprs are normalised; bare annotations and globals rebound during the call are excluded (documented exceptions); a global read only by a nested function and rebound after the call is the known finding global-read-by-nested-function-snapshotted-at-entry (own finding stream).",
)
claim(
    "C02",
    "trace monitor: probe streams (merged per-variable stream and simultaneously active context probes) vs the reference binding trace of an independently rendered hooked twin of the same program",
    "Seeded random exploration over the C01 program space: for every program and input the twin's trace gives the exact expected stream of every variable and of random f(C...) > v selectors (context sizes 0-3, .values()/raw/raw-overlay delivery, several probes active at once); values are repr-ed inside the subscriber at delivery time so aliasing of live captures is visible. Held-on-observed.",
    "Twin hook placement encodes my reading of the statement's binding forms; parameter-entry order and mutable-object context reprs are not asserted.",
)
claim(
    "C06",
    "trace monitor with three oracles: bracket automaton over the observed meta/variable stream, sys.monitoring ground truth (PY_START/RETURN/YIELD/RESUME/THROW/UNWIND on the original code object), and the hooked twin for loop iterations",
    "Seeded random exploration of control-flow-heavy functions and generators (nested loops x try/finally x early exits, driven by next/send/throw/close/drop scripts); entry/exit bracketing, exactly one value-or-error per ended activation with the value/exception reported by the interpreter itself, one yield per PY_YIELD, one receive per next/send resumption, properly nested loop begin/end on every exit, and wrapper-probe begin/end pairs. Held-on-observed apart from one listed known finding.",
    "Programs whose `return` is followed by a finally clause are routed to the known-finding stream (value-event-superseded-by-finally); order of #value relative to events produced by later finally clauses is not asserted.",
)
claim(
    "C04",
    "differential execution monitor: the real program under 1-3 overriding handlers (all six override mechanisms, random nesting with plain probes) vs the hooked twin run with a substituting hook implementing 'most recently activated non-declining handler wins'",
    "Seeded random exploration over the C01 program space x focus positions (parameters, all assignment forms, loop/with targets, attribute stores, return value) x override functions (constant, of tentative value, of context, conditional/declining) x mechanisms x nesting orders; result, exception, generator trace, ordered side-effect log and state must equal the substituted twin's, plain probes inside and outside must see the substituted values, and closure-variable overrides must raise OverrideException without touching the cell. Held-on-observed.",
    "Override functions decline for non-int tentative values; an overridable probe's own stream is not asserted.",
)
claim(
    "C10",
    "differential monitor against Python's own symtable: every symbol of the generated function must be selectable with the matching provenance; fresh names, bad meta-variables, unresolvable functions and uninstrumentable objects must be refused with the stated error class and a clean state",
    "Seeded random exploration over generated functions (bindings inside except/with/for/try/else blocks, nested def/class, comprehension and walrus variables, global/nonlocal declarations, closures): ~30 name checks per function against symtable.symtable(), plus refusal checks (SelectorError before anything runs: zero interact() calls, instrument_count back to 0, original code object) and a fixed battery of 11 uninstrumentable objects (TypeError). Held-on-observed.",
    "Python's symtable is the arbiter; names occurring only in nested scopes are not asserted.",
)
claim(
    "C11",
    "trace monitor: raw tag-selector streams vs the hooked twin's bindings labelled with each binding's own annotation; InteractLog monitor for 'only the selected bindings are instrumented'; exhaustive TagSet algebra",
    "Seeded random exploration of functions with random tag sets (string and object form, permuted and repeated members) on parameters and annotated assignments x every tag of a 4-letter alphabet x {$x:@T, *:@T, v:@T, unrestricted $x}, plus return-annotation tags on a function family and an exhaustive check of TagSet equality/matching over all subsets, permutations and repetitions. Held-on-observed.",
    "A binding carries T iff the annotation at that binding site contains T; return tags in object form only.",
)
claim(
    "C16",
    "differential execution monitor against the hooked twin with a supplying hook, plus an ABSENT-marker monitor on Interactor.interact and a repr scan of results, yields, events and the side-effect log",
    "Seeded random exploration of functions with declared-only variables (with/without tags) and conditionally used undefined globals x {tooled, $x, specific probes, meta-only, none} x supplied subsets via tweaking / rewriting / overridable probes: supplied => equal to the substituted twin; instrumented and unsupplied => PteraNameError at the declaration identifying variable, function, annotation and provenance; undefined names used => NameError family, unused => equal to plain; the marker never reaches user code. Held-on-observed apart from one listed known finding.",
    "Uninstrumented declarations may fail at first use (Python's UnboundLocalError); configurations that instrument an undefined global are routed to the known-finding stream (undefined-global-fails-at-entry).",
)
claim(
    "C08",
    "controlled-concurrency monitor: a deterministic cooperative scheduler on sys.settrace enumerates thread switches at line (and opcode) granularity inside ptera's activation / deactivation / call-entry code; per-thread event streams and post-join instrumentation state are compared with the sequential reference",
    "Five scenarios of 2-3 threads activating / calling / deactivating probes and raw overlays on shared functions, cold and warm; every single-preemption schedule at line granularity plus random schedules with <=3 preemptions (quick), opcode-granularity single preemptions inside push/pop/_apply/_tooler, two-preemption and denser random schedules (thorough).  Exactly one thread runs at a time, so each execution is a pure function of its schedule and every failure replays.  Held-on-observed: covers only the enumerated switch points, not free-running preemption inside C code.",
    "Locks found in ptera's modules are swapped for cooperative locks; a deadlocked or over-long schedule is inconclusive; global probes seen from other threads are not asserted.",
)
