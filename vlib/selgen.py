"""Abstract selectors, their documented spellings, and a reference desugarer.

Nothing in this file imports ptera's parser; `expected()` builds, from the documented
meaning of the notation, the structure the compiled selector must have.  `struct_of()`
reads the same shape off a real ptera Selector object so the two can be compared.

abstract call  = {"fn": str, "fcat": str|None, "caps": [elem], "kids": [call]}
abstract elem  = {"name": str|None, "alias": str|None, "cat": str|None,
                  "val": None | ["eq"|"match", vexpr], "focus": 0|1|2}
vexpr          = ["sym", text] | ["call", vexpr, [vexpr|["kw", key, vexpr] ...]]
A selector is a call (at most one elem with focus==1 anywhere; the chain of kids leading to
it is the *focus path* and the generator keeps every path kid last among its siblings) or a
bare elem.
"""

import copy
import itertools

FN_NAMES = ["f", "g", "h", "k", "mod.fn", "a.b.c", "Cls.meth", "/m.sub/K/f", "/m/top", "_p", "f2"]
VAR_NAMES = ["a", "b", "c", "x", "y", "z", "i", "self", "n_1", "q.r", "#enter", "#exit", "#error", "#loop_i", "#endloop_i", "#yield", "#receive", "#value"]
ALIASES = ["r", "s", "t", "u", "w2", "out"]
TAGS = ["T", "Hot", "cool_1"]
VALS = [
    ["sym", "1"],
    ["sym", "-2"],
    ["sym", "1.5"],
    ["sym", "'hi there'"],
    ["sym", "foo"],
    ["sym", "m.K"],
    ["call", ["sym", "mk"], []],
    ["call", ["sym", "mk"], [["sym", "3"]]],
    ["call", ["sym", "every"], [["sym", "2"], ["sym", "1"]]],
    ["call", ["sym", "mk"], [["call", ["sym", "g"], [["sym", "0"]]]]],
    ["call", ["sym", "mk"], [["kw", "k", ["sym", "2"]]]],
    ["call", ["sym", "every"], [["sym", "3"], ["kw", "start", ["sym", "1"]]]],
]


def E(name, alias=None, cat=None, val=None, focus=0):
    return {"name": name, "alias": alias, "cat": cat, "val": val, "focus": focus}


def C(fn, caps=(), kids=(), fcat=None):
    return {"fn": fn, "fcat": fcat, "caps": list(caps), "kids": list(kids)}


def has_kw(v):
    if v is None:
        return False
    if v[0] == "kw":
        return True
    if v[0] == "call":
        return has_kw(v[1]) or any(has_kw(a) for a in v[2])
    return False


def sel_has_kw(sel):
    if "fn" in sel:
        return any(sel_has_kw(c) for c in sel["caps"]) or any(sel_has_kw(k) for k in sel["kids"])
    return sel["val"] is not None and has_kw(sel["val"][1])


# ------------------------------------------------------------------ generation


def rand_elem(rnd, focus=0, allow_generic=False, rich=True):
    generic = allow_generic and rnd.random() < 0.25
    name = None if generic else rnd.choice(VAR_NAMES)
    alias = None
    if generic:
        alias = rnd.choice(ALIASES) if rnd.random() < 0.8 else None
    elif rnd.random() < 0.3:
        alias = rnd.choice(ALIASES)
    cat = rnd.choice(TAGS) if rich and rnd.random() < 0.25 else None
    val = None
    if rich and rnd.random() < 0.3:
        val = [rnd.choice(["eq", "match"]), copy.deepcopy(rnd.choice(VALS))]
    return E(name, alias, cat, val, focus)


def rand_call(rnd, depth, width, on_path, total=False, wrapper=False):
    fn = rnd.choice(FN_NAMES)
    fcat = rnd.choice(TAGS) if rnd.random() < 0.1 and not fn.startswith("/") else None
    ncaps = rnd.randint(0, width)
    caps = [rand_elem(rnd) for _ in range(ncaps)]
    kids = []
    if depth > 0:
        for _ in range(rnd.randint(0, min(2, width))):
            kids.append(rand_call(rnd, depth - 1, width, False))
    if on_path and not total:
        if depth > 0 and rnd.random() < 0.6:
            kids.append(rand_call(rnd, depth - 1, width, True, wrapper=wrapper))
        else:
            if wrapper:
                caps.append(rand_elem(rnd, focus=2, rich=False))
            caps.append(rand_elem(rnd, focus=1, allow_generic=True))
    # avoid duplicate capture names inside one call: not needed for parsing
    return C(fn, caps, kids, fcat)


def rand_selector(rnd, depth=2, width=3):
    r = rnd.random()
    if r < 0.04:
        return rand_elem(rnd, focus=1, allow_generic=True)
    total = r < 0.15
    wrapper = (not total) and rnd.random() < 0.05
    return rand_call(rnd, rnd.randint(0, depth), width, True, total=total, wrapper=wrapper)


def enum_small():
    """Systematic family: every operand kind in every position of a few fixed shapes."""
    out = []
    elems = []
    for name in ["a", "#enter", "q.r", "#value", None]:
        for alias in [None, "r"]:
            if name is None and alias is None:
                elems.append(E(None))
                continue
            for cat in [None, "T"]:
                for val in [None, ["eq", ["sym", "1"]], ["match", ["call", ["sym", "every"], [["sym", "2"]]]], ["eq", ["call", ["sym", "mk"], [["kw", "k", ["sym", "2"]]]]]]:
                    elems.append(E(name, alias, cat, val))
    for fn in ["f", "a.b.c", "/m.sub/K/f"]:
        for fe in elems:
            f1 = dict(fe, focus=1)
            # depth 0: f(ctx, !x)
            for ctx in ([], [E("b")], [E("b", "s"), E("c", None, "Hot")]):
                out.append(C(fn, [copy.deepcopy(c) for c in ctx] + [copy.deepcopy(f1)]))
            # depth 1 and 2 with the focus at the bottom
            out.append(C(fn, [E("b")], [C("g", [E("y"), copy.deepcopy(f1)])]))
            out.append(C(fn, [], [C("g", [E("y")], [C("h", [copy.deepcopy(f1)])])]))
            out.append(C(fn, [E("b")], [C("k", [E("z", "zz")]), C("g", [copy.deepcopy(f1)])]))
            # non-focus use in a total selector (named elements only)
            if fe["name"] is not None:
                out.append(C(fn, [copy.deepcopy(fe)], [C("g", [E("y")])]))
    for fcat in TAGS:
        out.append(C("f", [E("x", focus=1)], [], fcat))
    return out


# ------------------------------------------------------------------ rendering
# A rendering is a list of tokens: ("w", text) words, ("o", text) operators, ("as",).


def r_val(v):
    if v[0] == "sym":
        return [("w", v[1])]
    if v[0] == "kw":
        return [("w", v[1]), ("o", "=")] + r_val(v[2])
    assert v[0] == "call"
    toks = r_val(v[1]) + [("o", "(")]
    for i, a in enumerate(v[2]):
        if i:
            toks.append(("o", ","))
        toks += r_val(a)
    return toks + [("o", ")")]


def r_elem(e, style, mark=True):
    toks = []
    if mark and e["focus"] == 1:
        toks.append(("o", "!"))
    elif e["focus"] == 2:
        toks.append(("o", "!!"))
    if e["name"] is None:
        if e["alias"] is None:
            toks.append(("w", "*"))
        elif style.get("dollar", True):
            toks += [("o", "$"), ("w", e["alias"])]
        else:
            toks += [("w", "*"), ("as",), ("w", e["alias"])]
    else:
        toks.append(("w", e["name"]))
        if e["alias"] is not None:
            toks += [("as",), ("w", e["alias"])]
    if e["cat"] is not None:
        toks += [("o", ":"), ("w", "@" + e["cat"])]
    if e["val"] is not None:
        toks += [("o", "=" if e["val"][0] == "eq" else "~")] + r_val(e["val"][1])
    return toks


def _is_ret_as(e, root_ctx):
    """`f(...) as r` sugar applies to a trailing `#value as r` capture whose focus is what the
    context gives it (focus at root level, none inside parentheses)."""
    return (
        e["name"] == "#value"
        and e["alias"] not in (None, "#value")
        and e["cat"] is None
        and e["val"] is None
        and e["focus"] == (1 if root_ctx else 0)
    )


def _is_ret_eq(e):
    return e["name"] == "#value" and e["alias"] is None and e["cat"] is None and e["val"] is not None and e["focus"] == 0


def focus_path(call):
    """Return list of calls from root to the one holding the focus elem, or None."""
    if any(c["focus"] == 1 for c in call["caps"]):
        return [call]
    for k in call["kids"]:
        p = focus_path(k)
        if p:
            return [call] + p
    return None


def r_call(call, style, root_ctx, chain):
    """Render a call.  root_ctx: the call is evaluated in the parser's root context (top level
    or right of a top-level `>`), where `f() as r` puts the focus on r.  chain: express the
    focus path below this call with `>` where the notation allows it."""
    fn = [("w", call["fn"])]
    if call["fcat"] is not None:
        fn += [("o", ":"), ("w", "@" + call["fcat"])]
    caps = list(call["caps"])
    kids = list(call["kids"])
    path = focus_path(call)
    tail = None  # tokens placed after `>`
    suffix = []
    if path and chain:
        if len(path) == 1:
            fe = [c for c in caps if c["focus"] == 1][0]
            if caps[-1] is fe and not (style.get("ret_sugar") and _is_ret_as(fe, root_ctx)):
                caps = caps[:-1]
                tail = r_elem(fe, style, mark=style.get("mark_after_gt", False))
        else:
            pk = path[1]
            if kids and kids[-1] is pk:
                kids = kids[:-1]
                # what stands after `>` is in focus position (root-like context), also inside an
                # argument list: `h(f > g() as r)` puts the focus on r
                tail = r_call(pk, style, True, chain=style.get("chain_all", True))
                if style.get("group_tail"):
                    tail = [("o", "(")] + tail + [("o", ")")]
    if tail is None and caps and style.get("ret_sugar"):
        last = caps[-1]
        if _is_ret_as(last, root_ctx):
            caps = caps[:-1]
            suffix = [("as",), ("w", last["alias"])]
        elif _is_ret_eq(last):
            caps = caps[:-1]
            suffix = [("o", "=" if last["val"][0] == "eq" else "~")] + r_val(last["val"][1])
    items = [r_elem(c, style) for c in caps] + [
        r_call(k, style, False, chain=style.get("inner_chain", False)) for k in kids
    ]
    if style.get("group_items"):
        # grouping parentheses around each argument: f((a), (g(b)))
        items = [[("o", "(")] + it + [("o", ")")] for it in items]
    if style.get("group_prefix") and len(items) >= 2:
        # a parenthesised sequence as the first argument(s): f((a, b), c)
        k = 2
        grouped = [("o", "(")] + items[0]
        for it in items[1:k]:
            grouped += [("o", ",")] + it
        grouped.append(("o", ")"))
        items = [grouped] + items[k:]
    toks = list(fn)
    if items or suffix or style.get("always_parens", False) or tail is None:
        toks.append(("o", "("))
        for i, it in enumerate(items):
            if i:
                toks.append(("o", ","))
            toks += it
        toks.append(("o", ")"))
    toks += suffix
    if tail is not None:
        toks += [("o", ">")] + tail
    return toks


def render_tokens(sel, style):
    if "fn" not in sel:
        # bare element at top level: the root context supplies the focus
        return r_elem(sel, style, mark=style.get("mark_bare", False))
    return r_call(sel, style, True, chain=style.get("chain", False))


STYLES = [
    {"name": "paren"},  # canonical: f(a, g(b, h(!x)))
    {"name": "chain", "chain": True, "chain_all": True},  # f(a) > g(b) > h > x
    {"name": "chain1", "chain": True, "chain_all": False},  # f(a) > g(b, h(!x))
    {"name": "chain-grouped", "chain": True, "chain_all": True, "group_tail": True},  # a > (b > c)
    {"name": "chain-always-parens", "chain": True, "chain_all": True, "always_parens": True},
    {"name": "inner-chain", "inner_chain": True},  # f(a, g(b) > x)
    {"name": "paren-star", "dollar": False},  # * as x
    {"name": "chain-star", "chain": True, "chain_all": True, "dollar": False},
    {"name": "paren-ret", "ret_sugar": True},  # f() as r / f(b)=c
    {"name": "chain-ret", "chain": True, "chain_all": True, "ret_sugar": True},
    {"name": "chain-marked", "chain": True, "chain_all": True, "mark_after_gt": True},  # f > !x
    {"name": "paren-grouped-items", "group_items": True},  # f((a), (g((b))))
    {"name": "chain-grouped-items", "chain": True, "chain_all": True, "group_items": True},
    {"name": "paren-grouped-prefix", "group_prefix": True},  # f((a, b), c)
    {"name": "inner-chain-ret", "inner_chain": True, "chain_all": True, "ret_sugar": True},  # h(a, f > g() as r)
]


def join_tokens(toks, rnd=None, mode="tight"):
    """tight: no optional whitespace; padded: one space around every operator;
    random: random runs of space/tab/newline around operators."""
    out = []
    for i, t in enumerate(toks):
        if t[0] == "as":
            if mode == "random":
                out.append(_ws(rnd, 1) + "as" + _ws(rnd, 1))
            else:
                out.append(" as ")
        elif t[0] == "w":
            out.append(t[1])
        else:
            if mode == "tight":
                out.append(t[1])
            elif mode == "padded":
                out.append(" " + t[1] + " ")
            else:
                out.append(_ws(rnd, 0) + t[1] + _ws(rnd, 0))
    s = "".join(out)
    if mode == "random":
        s = _ws(rnd, 0) + s + _ws(rnd, 0)
    return s


def _ws(rnd, minimum):
    n = rnd.choice([0, 0, 1, 1, 2, 3])
    n = max(n, minimum)
    return "".join(rnd.choice([" ", " ", " ", "\t", "\n"]) for _ in range(n))


def spellings(sel, rnd):
    """All distinct renderings of one abstract selector: every style, tight + padded + 2 random."""
    seen = {}
    for st in STYLES:
        toks = render_tokens(sel, st)
        key = tuple(toks)
        if key in seen:
            continue
        seen[key] = st["name"]
    out = []
    for toks, name in seen.items():
        toks = list(toks)
        out.append((name, "tight", join_tokens(toks, mode="tight")))
        out.append((name, "padded", join_tokens(toks, mode="padded")))
        out.append((name, "random", join_tokens(toks, rnd, mode="random")))
    return out


# ------------------------------------------------------------------ reference desugarer


def x_val(v):
    if v[0] == "sym":
        return ("sym", v[1])
    if v[0] == "kw":
        return ("kw", ("sym", v[1]), x_val(v[2]))
    return ("call", x_val(v[1]), tuple(x_val(a) for a in v[2]))


def x_elem(e, extra_focus=False):
    name = e["name"]
    capture = e["alias"] if e["alias"] is not None else name
    cat = None if e["cat"] is None else ("sym", "@" + e["cat"])
    if e["val"] is None:
        val = "ABSENT"
    elif e["val"][0] == "eq":
        val = x_val(e["val"][1])
    else:
        val = ("call", "MatchFunction", (x_val(e["val"][1]),))
    tags = []
    if e["focus"] == 1 or extra_focus:
        tags.append(1)
    if e["focus"] == 2:
        tags.append(2)
    return ("E", None if name is None else ("str", name), capture, cat, val, tuple(sorted(tags)))


def x_call(c):
    cat = None if c["fcat"] is None else ("sym", "@" + c["fcat"])
    el = ("E", ("sym", c["fn"]), None, cat, "ABSENT", ())
    return (
        "C",
        el,
        tuple(x_elem(e) for e in c["caps"]),
        tuple(x_call(k) for k in c["kids"]),
        False,
    )


def expected(sel):
    if "fn" in sel:
        return x_call(sel)
    return x_elem(sel, extra_focus=True)


def expected_focus(sel):
    """(capture name, name) of the focus variable, or None for a focus-free selector."""
    if "fn" not in sel:
        return (sel["alias"] if sel["alias"] is not None else sel["name"], sel["name"])
    p = focus_path(sel)
    if not p:
        return None
    fe = [c for c in p[-1]["caps"] if c["focus"] == 1][0]
    return (fe["alias"] if fe["alias"] is not None else fe["name"], fe["name"])


def struct_of(obj):
    """Read the comparable structure off a real ptera selector object."""
    from ptera.selector import Call, Element

    if isinstance(obj, Element):
        return (
            "E",
            vstruct(obj.name),
            obj.capture,
            vstruct(obj.category),
            vstruct(obj.value),
            tuple(sorted(obj.tags)),
        )
    if isinstance(obj, Call):
        return (
            "C",
            struct_of(obj.element),
            tuple(struct_of(c) for c in obj.captures),
            tuple(struct_of(c) for c in obj.children),
            obj.immediate,
        )
    return ("?", repr(obj))


def vstruct(v):
    from ptera.selector import MatchFunction, VCall, VKeyword, VSymbol
    from ptera.utils import ABSENT

    if v is ABSENT:
        return "ABSENT"
    if v is None:
        return None
    if v is MatchFunction:
        return "MatchFunction"
    if isinstance(v, str):
        return ("str", v)
    if isinstance(v, VSymbol):
        return ("sym", v.value)
    if isinstance(v, VKeyword):
        return ("kw", vstruct(v.key), vstruct(v.value))
    if isinstance(v, VCall):
        return ("call", vstruct(v.fn), tuple(vstruct(a) for a in v.args))
    return ("?", repr(v))


def build_with_constructors(x):
    """Build a ptera selector object from an expected structure using the public
    constructors only (no parser): used for 'structural equality => identity'."""
    from ptera.selector import Call, Element, MatchFunction, VCall, VKeyword, VSymbol
    from ptera.utils import ABSENT

    def bv(v):
        if v == "ABSENT":
            return ABSENT
        if v is None:
            return None
        if v == "MatchFunction":
            return MatchFunction
        if v[0] == "str":
            return v[1]
        if v[0] == "sym":
            return VSymbol(v[1])
        if v[0] == "kw":
            return VKeyword(bv(v[1]), bv(v[2]))
        if v[0] == "call":
            return VCall(bv(v[1]), tuple(bv(a) for a in v[2]))
        raise ValueError(v)

    if x[0] == "E":
        return Element(name=bv(x[1]), capture=x[2], category=bv(x[3]), value=bv(x[4]), tags=frozenset(x[5]))
    return Call(
        element=build_with_constructors(x[1]),
        captures=tuple(build_with_constructors(c) for c in x[2]),
        children=tuple(build_with_constructors(c) for c in x[3]),
        immediate=x[4],
    )
