"""Regenerates MANIFEST.json from the table below (run by hand, output committed)."""
import json
import os

HERE = os.path.dirname(os.path.dirname(os.path.abspath(__file__)))
PROPS = [json.loads(l) for l in open(os.path.join(HERE, "properties.jsonl"))]

# property -> (technique, level text, level note, design ref)
CLAIMED = {}


def claim(pid, technique, text, note, level="exploration"):
    CLAIMED[pid] = dict(technique=technique, text=text, note=note, level=level)


exec(open(os.path.join(HERE, "vlib", "claims.py")).read())

checks = []
for p in PROPS:
    pid = p["id"]
    if pid not in CLAIMED:
        continue
    c = CLAIMED[pid]
    checks.append(
        {
            "property_id": pid,
            "quick_cmd": f"./check {pid} --tier quick",
            "thorough_cmd": f"./check {pid} --tier thorough",
            "evidence_file": f"/verif/evidence/{pid}.json",
            "replay_cmd_template": f"./check {pid} --replay {{path}}",
            "engine": "ptera-runtime-monitors",
            "level_claimed": {
                "category": c["level"],
                "text": c["text"],
                "design_ref": f"DESIGN.md section 2, {pid}",
            },
            "level_note": c["note"],
            "technique": c["technique"],
        }
    )
manifest = {
    "version": 1,
    "setup_cmd": "cd /verif && /venv/bin/python -c \"import sys; sys.path.insert(0,'/repo'); import ptera, giving, codefind; print('ptera from', ptera.__file__)\" && chmod +x check",
    "hooks": {
        "guard": "PTERA_VERIF",
        "enable": "No source hooks: every monitor is attached from the harness process by wrapping ptera attributes (checks export PTERA_VERIF=1 to their workers for uniformity; the repository does not read it).",
        "baseline_off_cmd": "cd /repo && /venv/bin/python -m pytest -ra -q -p no:cacheprovider --timeout=900 --continue-on-collection-errors",
        "source_commits": [],
        "add_only": True,
    },
    "engines": [
        {
            "name": "ptera-runtime-monitors",
            "path": "/verif/check",
            "serves_properties": sorted(CLAIMED),
            "kind_free_text": "runtime monitoring: generated workloads run against /repo's working tree in worker subprocesses; monitors wrap ptera internals from outside and compare observed executions with independent reference oracles",
        }
    ],
    "checks": checks,
    "notes": "All checks run the real ptera from /repo's current working tree (PYTHONPATH=/repo first; workers assert ptera.__file__ is under /repo). Exit 0 = held on everything observed (plus KNOWN-FINDING lines), 1 = VIOLATION, 2 = INCONCLUSIVE (deciding monitor not reached / worker watchdog).",
    "not_applicable": [
        {"property_id": p["id"], "reason": "check not built yet in this session (work in progress; see DESIGN.md section 2 for the planned monitor)"}
        for p in PROPS
        if p["id"] not in CLAIMED
    ],
}
with open(os.path.join(HERE, "MANIFEST.json"), "w") as f:
    json.dump(manifest, f, indent=1)
print("claimed", sorted(CLAIMED), "n/a", [x["property_id"] for x in manifest["not_applicable"]])
