"""C07 - total probes emit one complete record per outermost call."""

import collections

from vlib import calltree as CT, common
from vlib.common import ShardResult, rng_for

PROPERTY = "C07"
LEVEL = "exploration"
RULE = (
    "A (call tree, selector) pair over the C03 function family: focus-free selectors (captures at every level, "
    "sibling sub-selectors, depth <= 3) and focused selectors forced to total mode; call trees include repeated and "
    "recursive outermost calls, several top-level calls per run, empty loops (a captured variable never bound) and "
    "activations that raise, generic captures (F_i(*) compared with the immediate probe F_i > *), and record handlers that themselves raise at the end of an outermost call (the run then goes on in its caller).  Records from probing(sel, raw=True[, probe_type='total']) and from "
    "BaseOverlay(Total(...)) are timestamped against the program's own log and compared with a reference computed "
    "from that log: one record per root-function activation at its exit, all values in binding order, only if every "
    "capture has a value.  non-trivial = reference expects >= 1 record; distinct = distinct (trees, selector) pairs."
)
ASSUMPTIONS = [
    "Values from nested matching calls are counted once per embedding of the intermediate selector path (consistent with C03's matching relation; e.g. f > g > g > k contributes k's values twice to f(g(k(x)))).",
    "Forced-total records are compared per outermost activation as a multiset (the statement does not order the records of one outermost call).",
    "Every capture has a unique alias.",
    "'At that moment' is checked as: the record is delivered after the root activation's last own log entry before its 'exit' entry's successor, i.e. no other activation's events occur between the root's exit and the delivery.",
]
MECHANISMS = {}
MIN_DECIDING = {"quick": 1500, "thorough": 40000}
SHARD_TIMEOUT = {"quick": 900, "thorough": 7200}


class Reject(ValueError):
    """Raised by the record handler itself (a subscriber that rejects a record).  The family's
    callers swallow ValueError, so the run goes on in the caller of the call that just ended."""


def observe(ns, s, trees, mode, forced, raise_at=()):
    from ptera import probing
    from ptera.interpret import Total
    from ptera.overlay import BaseOverlay, autotool
    from ptera.selector import select

    got = []  # (log length at delivery, record)
    ns["reset"]()
    LOG = ns["LOG"]

    def take(d):
        got.append((len(LOG), {k: list(c.values) for k, c in d.items()}))
        if (len(got) - 1) in raise_at:
            raise Reject(len(got))

    if mode == "overlay":
        selobj = select(s, env=ns)
        autotool(selobj)
        try:
            with BaseOverlay(Total(selobj, close=take)):
                for t in trees:
                    CT.run_tree(ns, t)
        finally:
            autotool(selobj, undo=True)
    else:
        kw = {"probe_type": "total"} if forced else {}
        with probing(s, env=ns, raw=True, **kw) as prb:
            prb.subscribe(take)
            for t in trees:
                CT.run_tree(ns, t)
    return got


def exit_positions(log):
    return {e[1]: i for i, e in enumerate(log) if e[0] == "exit"}


def check_pair(ns, trees, sel, focus, mode, res, case):
    fpath, fvar = focus if focus else (None, None)
    s = CT.render(sel, fpath, fvar)
    case = dict(case, selector=s)
    res.evaluations += 1
    try:
        got = observe(ns, s, trees, mode, focus is not None, tuple(case.get("raise_at") or ()))
    except Exception as e:
        res.violation(case, "exception while observing: " + common.fmt_exc(e))
        return
    log = list(ns["LOG"])
    L = CT.Log(log)
    pos = exit_positions(log)
    res.deciding += 1
    if focus is None:
        exp = CT.reference_total(L, sel)
        exp_recs = [r for _, r in exp]
        got_recs = [r for _, r in got]
        if exp_recs != got_recs:
            res.violation(case, {"what": "records differ", "expected": exp_recs[:6], "got": got_recs[:6], "n_expected": len(exp_recs), "n_got": len(got_recs)})
        else:
            # delivered at the moment the outermost call ends: right after its 'exit' log entry
            for (a, _), (t, _) in zip(exp, got):
                if t != pos[a] + 1:
                    res.violation(case, {"what": "record not delivered when the outermost call ended", "root_activation": a, "exit_log_index": pos[a], "delivered_at_log_length": t})
                    break
        n = len(exp_recs)
        if any(len(v) > 1 for r in exp_recs for v in r.values()):
            res.count("pairs_multi_valued")
    else:
        exp = CT.reference_forced_total(L, sel, fpath, fvar)
        canon = lambda recs: sorted(sorted((k, tuple(v)) for k, v in r.items()) for r in recs)  # noqa: E731
        # group what was delivered by the root activation whose exit it follows
        by_t = collections.defaultdict(list)
        for t, r in got:
            by_t[t].append(r)
        n = 0
        ok = True
        for a, recs in exp:
            n += len(recs)
            g = by_t.pop(pos[a] + 1, [])
            if canon(g) != canon(recs):
                res.violation(case, {"what": "forced-total records of one outermost call differ", "root_activation": a, "expected": canon(recs)[:6], "got": canon(g)[:6]})
                ok = False
                break
        if ok and by_t:
            res.violation(case, {"what": "records delivered at a moment that is not the end of an outermost call", "extra": {str(k): v[:3] for k, v in list(by_t.items())[:3]}})
        res.count("forced_total_pairs")
    res.count("records", n)
    if n:
        res.nontrivial_case([trees, s, focus is not None])
    return s, n


def check_generic(ns, trees, fi, res, case):
    """A focus-free selector with a generic capture, F_i(*): one record per activation of F_i, and
    together the records hold exactly the values that the immediate probe F_i > * delivers."""
    from ptera import probing

    res.evaluations += 1
    recs, imm = [], []

    def stable(v):
        # mutable objects (the program's log, the call tree) are compared by type only
        return repr(v) if isinstance(v, (int, str, type(None))) else type(v).__name__
    try:
        ns["reset"]()
        with probing(f"F{fi}(*)", env=ns, raw=True) as prb:
            prb.subscribe(lambda d: recs.append([stable(v) for c in d.values() for v in c.values]))
            for t in trees:
                CT.run_tree(ns, t)
        n_act = sum(1 for e in ns["LOG"] if e[0] == "enter" and e[3] == fi)
        ns["reset"]()
        with probing(f"F{fi} > *", env=ns, raw=True) as prb:
            prb.subscribe(lambda d: imm.extend(stable(c.value) for c in d.values()))
            for t in trees:
                CT.run_tree(ns, t)
    except Exception as e:
        res.violation(case, "exception while observing a generic capture: " + common.fmt_exc(e))
        return
    res.deciding += 1
    flat = sorted(v for r in recs for v in r)
    if len(recs) != n_act or flat != sorted(imm):
        res.violation(case, {"what": f"total probe F{fi}(*) disagrees with the immediate probe F{fi} > *", "records": len(recs), "activations": n_act, "values_in_records": len(flat), "values_immediate": len(imm)})
    res.count("generic_capture_total_checks")
    if n_act:
        res.nontrivial_case(["generic", trees, fi])


SNAP_SRC = """
def g(n):
    for i in range(n):
        y = i
        yield y

def f(x):
    it = g(x)
    next(it)
    return it
"""


def check_record_is_snapshot(scratch, res):
    """A record is delivered when the outermost call ends and contains the values taken during that
    call: a generator started under the call and resumed after it returned must not add to it."""
    import importlib.util
    import os

    from ptera import probing

    path = os.path.join(scratch, "c07snap.py")
    with open(path, "w") as fh:
        fh.write(SNAP_SRC)
    sp = importlib.util.spec_from_file_location("c07snap", path)
    mod = importlib.util.module_from_spec(sp)
    sp.loader.exec_module(mod)
    for n in (1, 3, 5):
        res.evaluations += 1
        res.deciding += 1
        recs = []
        try:
            with probing("f(x, g(y))", env=vars(mod), raw=True) as prb:
                prb.subscribe(recs.append)
                it = mod.f(n)
                at_delivery = [{k: list(c.values) for k, c in r.items()} for r in recs]
                list(it)
                later = [{k: list(c.values) for k, c in r.items()} for r in recs]
        except Exception as e:
            res.violation({"snapshot": n}, "exception: " + common.fmt_exc(e))
            continue
        if at_delivery != [{"x": [n], "y": [0]}] or later != at_delivery:
            res.violation({"snapshot": n}, {"what": "the record of f(x, g(y)) changed after it was delivered (a generator started under f was resumed after f returned)", "at_delivery": at_delivery, "later": later})
        res.count("record_snapshot_checks")


def run_shard(spec):
    res = ShardResult()
    scratch = spec["scratch"]
    if spec["range"][0] == 0:
        check_record_is_snapshot(scratch, res)
    s0, cnt = spec["range"]
    ns = None
    for i in range(s0, s0 + cnt):
        rnd = rng_for("C07", spec["seed"], i)
        if ns is None or i % 40 == 0:
            nf = rnd.randint(3, 5)
            ns = CT.load_family(scratch, f"c07fam_{i}", nf)
            ns["__nf"] = nf
        nf = ns["__nf"]
        if i % 10 == 0:
            gr = rng_for("C07g", spec["seed"], i)
            gtrees = [CT.rand_tree(gr, nf, [gr.randint(1, 6)], p_raise=0.1)]
            gfi = gtrees[0][0] if gr.random() < 0.7 else gr.randrange(nf)
            check_generic(ns, gtrees, gfi, res, {"nf": nf, "trees": gtrees, "generic": gfi, "sel": None, "focus": None, "mode": "probing"})
        ntop = rnd.choice([1, 1, 2, 3])
        trees = [CT.rand_tree(rnd, nf, [rnd.randint(1, spec["maxact"])], p_raise=0.15) for _ in range(ntop)]
        sel = CT.rand_sel(rnd, nf, rnd.randint(0, 2), p_cap=0.35)
        if not CT.all_names(sel):
            sel[2].append(CT.fvars(sel[1])[0])
        # make the root function of the selector likely to appear at top level
        if rnd.random() < 0.6:
            trees[0][0] = sel[1]
        focus = None
        if rnd.random() < 0.3:
            focus = CT.place_focus(rnd, sel)
        mode = "overlay" if (focus is None and rnd.random() < 0.5) else "probing"
        case = {"nf": nf, "trees": trees, "sel": sel, "focus": focus, "mode": mode}
        if focus is None and rnd.random() < 0.3:
            # the handler raises after taking some of the records (focus-free selectors only: the
            # records of one forced-total call are delivered in one loop, which a raise would cut)
            case["raise_at"] = sorted(rnd.sample(range(6), rnd.randint(1, 3)))
            res.count("pairs_with_raising_handler")
        r = check_pair(ns, trees, sel, focus, mode, res, case)
        if r and i % 400 == 0:
            res.sample({"trees": trees, "selector": r[0], "forced_total": focus is not None, "records_expected": r[1]})
    return res.as_dict()


def plan(tier, seed, known):
    n, shards, maxact = (5000, 12, 10) if tier == "quick" else (100000, 32, 14)
    return [{"range": [s, c], "maxact": maxact} for s, c in common.split_range(n, shards)]


def replay(case):
    res = ShardResult()
    d = common.scratch_dir("C07r")
    ns = CT.load_family(d, "c07fam_replay", case["nf"])
    if case.get("generic") is not None:
        check_generic(ns, case["trees"], case["generic"], res, case)
        return res.violations
    print("trees:", case["trees"])
    print("selector:", case.get("selector"), "forced total:", case["focus"] is not None)
    check_pair(ns, case["trees"], case["sel"], case["focus"], case["mode"], res, case)
    return res.violations
