"""C16 - declared-but-unset variables are supplied from outside or fail loudly."""

from vlib import common, progen, prorun, streams
from vlib.common import ShardResult, rng_for

PROPERTY = "C16"
LEVEL = "exploration"
RULE = (
    "A case = (generated function containing declared-only variables (bare annotations, with and without tags) and "
    "conditionally used undefined globals, input, configuration).  Configurations: instrumentation in {everything via "
    "tooled(), everything via '$x', specific probes on a random subset of variables, a focus-free (total) probe over the "
    "declared variables, immediate probes with the declared variables as context, only a meta-variable probe, none} x "
    "a random subset of the declared variables supplied by Overlay.tweaking / Overlay.rewriting / an overridable probe.  "
    "Oracle per call: every declared variable reached on the path and supplied => outcome (result, exception, "
    "side-effect log, state) == the hooked twin run with a hook that stores the supplied value at the declaration; a "
    "reached declared variable that is instrumented but not supplied => PteraNameError raised there (log == twin's log "
    "up to the declaration) whose varname / function / info() annotation and provenance match the program; not "
    "instrumented and not supplied => a NameError for that variable; undefined global used on the path => a NameError "
    "(subclasses allowed), not used on the path => outcome == the plain program's.  Marker scan on every run: "
    "ptera.utils.ABSENT must never appear (identity on interact() return values, and 'ABSENT' in the repr of results, "
    "yielded values, event payloads and the side-effect log).  non-trivial = the path reached a declaration or used an "
    "undefined global; distinct = distinct (program, input, configuration)."
)
ASSUMPTIONS = [
    "When the declaration itself is not instrumented (no active selector names the variable) the statement's 'fails there' cannot apply; a NameError (Python's UnboundLocalError at first use) naming the variable is accepted.",
    "For an undefined global that IS used on the path only the error class (NameError family) is asserted, not the moment it is raised.",
    "Supplied values are ints.",
]
MECHANISMS = {
    "undefined-global-fails-at-entry": "a global that is undefined when the function is entered and is named by an active selector (or by $x / tooled) makes the call raise PteraNameError at entry even on paths that never use it (globals are pre-fetched at entry and a missing value is an error there)",
}
MECH = "undefined-global-fails-at-entry"
MIN_DECIDING = {"quick": 4000, "thorough": 80000}
SHARD_TIMEOUT = {"quick": 1200, "thorough": 7200}


class RefDeclared(Exception):
    """Raised by the reference hook where a declared-only variable is not supplied."""

    def __init__(self, name):
        super().__init__(name)
        self.name = name


def supplying_hook(mod, supplied):
    def hook(fn, kind, name, v):
        if v is mod.__DECLARED__:
            if name in supplied:
                v = supplied[name]
            else:
                raise RefDeclared(name)
        mod.EV.append((fn, kind, name, prorun.norm(v)))
        return v

    return hook


class AbsentWatch:
    """Monitor on Interactor.interact: the marker must never be returned to the program."""

    def __init__(self):
        from ptera.interpret import Interactor
        from ptera.utils import ABSENT

        self.leaks = []
        orig = Interactor.interact
        mon = self

        def interact(itor, varname, key, category, value, overridable):
            r = orig(itor, varname, key, category, value, overridable)
            if r is ABSENT:
                mon.leaks.append(varname)
            return r

        Interactor.interact = interact


def canon_log(log):
    out = []
    for e in log:
        if e and e[0] == "cm-exit" and e[2] in ("RefDeclared", "PteraNameError", "NameError", "UnboundLocalError"):
            e = (e[0], e[1], "NameError-family")
        out.append(tuple(e))
    return out


def family(result):
    if result[0] == "raise" and result[1] in ("NameError", "UnboundLocalError", "PteraNameError"):
        return ("raise", "NameError-family")
    return result


def gen_config(rnd, m):
    declared = list(m["declared"])
    names = [n for n in streams.body_names(m) if n not in ("o",)]
    instr = rnd.choice(["tooled", "generic", "specific", "specific", "meta", "none", "total", "context"])
    nsup = rnd.randint(0, len(declared)) if instr != "none" else 0
    supplied = {n: rnd.randint(2, 9) for n in rnd.sample(declared, nsup)} if declared else {}
    # probing() on a tooled() function swaps in a variant for the probe's own captures, so
    # supply through overlays (no autotool) when everything is instrumented by tooled()
    how = rnd.choice(["tweaking", "rewriting"] if instr == "tooled" else ["tweaking", "rewriting", "override", "item-override", "koverride"])
    specific = rnd.sample(names, min(len(names), rnd.randint(1, 3))) if instr == "specific" and names else []
    if instr == "specific" and m["undef_globals"] and rnd.random() < 0.4:
        specific.append(rnd.choice(m["undef_globals"]))
    if instr in ("total", "context"):
        # observers that capture the declared variables themselves: a focus-free (total) probe,
        # or immediate probes with a declared variable as context of a later binding
        specific = list(declared) + (rnd.sample(names, min(len(names), 2)) if names else [])
    abstainers = [n for n in supplied if rnd.random() < 0.5]
    # a declared variable that carries a tag of its own may be selected by that tag alone ($v:@T)
    bytag = {}
    other_anns = [set(t) for lst in (m.get("anns") or {}).values() for t in lst]
    for n in supplied:
        tags = m["decl_ann"].get(n)
        if not tags or rnd.random() < 0.4:
            continue
        others = set().union(*other_anns, *[set(m["decl_ann"].get(o) or ()) for o in declared if o != n]) if (other_anns or len(declared) > 1) else set()
        own = [t for t in tags if t not in others]
        if own:
            bytag[n] = rnd.choice(own)
    return {"instr": instr, "supplied": supplied, "how": how, "specific": specific, "abstainers": abstainers, "bytag": bytag}


def run_config(mod, m, cfg, argi, events):
    from ptera import ABSENT, Overlay, probing, tooled
    from ptera.overlay import autotool
    from ptera.selector import select

    ns = dict(vars(mod))
    fn = mod.f
    cms = []
    tooled_sel = []
    if cfg["instr"] == "tooled":
        fn = tooled(mod.f)
        ns["f"] = fn
    elif cfg["instr"] == "generic":
        p = probing("f > $x", env=ns, raw=True)
        p.subscribe(lambda d: events.extend(prorun.norm(c.value) for c in d.values()))
        cms.append(p)
    elif cfg["instr"] == "specific":
        for v in cfg["specific"]:
            p = probing(f"f > {v}", env=ns)
            p.subscribe(lambda d: events.extend(prorun.norm(x) for x in d.values()))
            cms.append(p)
    elif cfg["instr"] == "total" and cfg["specific"]:
        p = probing("f(" + ", ".join(cfg["specific"]) + ")", env=ns, raw=True)
        p.subscribe(lambda d: events.extend(prorun.norm(c.values) for c in d.values()))
        cms.append(p)
    elif cfg["instr"] == "context" and cfg["specific"]:
        dv = [v for v in cfg["specific"] if v in m["declared"]]
        for w in [v for v in cfg["specific"] if v not in m["declared"]] or ["#exit"]:
            p = probing("f(" + ", ".join(dv) + ") > " + w if dv else f"f > {w}", env=ns)
            p.subscribe(lambda d: events.extend(prorun.norm(x) for x in d.values()))
            cms.append(p)
    elif cfg["instr"] == "meta":
        p = probing("f > #enter", env=ns)
        p.subscribe(lambda d: None)
        cms.append(p)
    for name, val in cfg["supplied"].items():
        sel = f"f > {name}"
        if name in (cfg.get("bytag") or {}):
            ns.setdefault("tag", __import__("ptera").tag)
            sel = f"f > $v:@{cfg['bytag'][name]}"
        if cfg["how"] in ("item-override", "koverride") and name not in (cfg.get("bytag") or {}):
            # the documented idioms written for the variable itself: probe["x"].override(v) and
            # koverride(lambda x: v) - the variable has no value yet when they run
            p = probing(sel, env=ns, overridable=True)
            p.subscribe(lambda d: events.append(("shown-to-overridable-probe", repr(d))))
            if cfg["how"] == "item-override":
                p[name].override(val)
            else:
                p.koverride(eval(f"lambda {name}, **kw: _v", {"_v": val}))
            cms.append(p)
        elif cfg["how"] in ("override", "item-override", "koverride"):
            p = probing(sel, env=ns, overridable=True)
            # what the supplying probe itself is shown goes to `events` (scanned for the marker)
            p.subscribe(lambda d: events.append(("shown-to-overridable-probe", repr(d))))
            p.override(val)
            cms.append(p)
        else:
            so = select(sel, env=ns)
            if cfg["instr"] != "tooled":
                autotool(so)
                tooled_sel.append(so)
            if cfg["how"] == "tweaking":
                cms.append(Overlay.tweaking({so: val}))
            else:
                cms.append(Overlay.rewriting({so: (lambda d, val=val: (events.append(("shown-to-rewriting-function", repr(d))), val)[1])}))
    for name in cfg.get("abstainers", []):
        # a more recently activated rule on the same declaration that abstains: the supplied value
        # of the earlier rule must still be used
        if cfg["instr"] == "tooled":
            so = select(f"f > {name}", env=ns)
            cms.append(Overlay.rewriting({so: (lambda d: ABSENT)}))
        else:
            p = probing(f"f > {name}", env=ns, overridable=True)
            p.override(lambda d: ABSENT)
            cms.append(p)
    entered = []
    try:
        for cm in cms:
            cm.__enter__()
            entered.append(cm)
        out = prorun.run_call(mod, fn, argi, m["script"])
    finally:
        for cm in reversed(entered):
            cm.__exit__(None, None, None)
        for so in reversed(tooled_sel):
            autotool(so, undo=True)
    return out, fn


def instrumented_names(cfg, m):
    if cfg["instr"] in ("tooled", "generic"):
        return None  # everything
    s = set(cfg["supplied"])
    if cfg["instr"] in ("specific", "total", "context"):
        s |= set(cfg["specific"])
    return s


def check_program(m, mod, rnd, res, case_base, nconf, watch, mode="main", finding=None):
    finding = finding if finding is not None else []
    from ptera.transform import PteraNameError

    for argi in range(min(2, m["nargs"])):
        plain = prorun.run_call(mod, mod.f, argi, m["script"])
        for _ in range(nconf):
            cfg = gen_config(rnd, m)
            case = dict(case_base, argi=argi, config=cfg)
            trig = bool(m["undef_globals"]) and (cfg["instr"] in ("tooled", "generic") or any(u in cfg["specific"] for u in m["undef_globals"]))
            if cfg["instr"] in ("total", "context") and not cfg["specific"]:
                continue
            if mode == "main-known" and trig:
                res.count("skipped_known_trigger")
                continue
            if mode == "finding" and not trig:
                continue
            res.evaluations += 1
            # reference: twin with the supplying hook
            ref = prorun.run_call(mod, mod.f_T, argi, m["script"], hook=supplying_hook(mod, cfg["supplied"]), cell_owner="f_T")
            events = []
            watch.leaks = []
            try:
                out, fn = run_config(mod, m, cfg, argi, events)
            except Exception as e:
                res.violation(case, {"what": "exception while configuring", "error": common.fmt_exc(e)[-1500:]})
                continue
            res.deciding += 1
            # marker scan
            blob = repr(out["result"]) + repr(out["log"]) + repr(events) + out["args"]
            if watch.leaks or "ABSENT" in blob:
                res.violation(case, {"what": "ptera's ABSENT marker reached user code", "interact_returned_marker_for": watch.leaks[:5], "result": out["result"], "in_log": "ABSENT" in repr(out["log"]), "in_events": "ABSENT" in repr(events)})
                continue
            inames = instrumented_names(cfg, m)
            rr = ref["result"]
            # classify the reference outcome (generators: look at the first raise inside the trace)
            ref_exc = _first_exception(rr, ("RefDeclared",)) or _first_exception(rr, ("NameError", "UnboundLocalError"))
            if ref_exc and ref_exc[1] == "RefDeclared":
                var = _exc_name(ref, rr)
                res.nontrivial_case([m["src"], argi, cfg])
                res.count("paths_reaching_unsupplied_declaration")
                got_exc = _first_exception(out["result"], NAME_FAMILY)
                if trig and got_exc and got_exc[1] == "PteraNameError" and got_exc[2] in m["undef_globals"] and out["log"] == []:
                    # the known mechanism fired first: failure at entry for an undefined global
                    # that the path had not used
                    finding.append(case)
                    continue
                if inames is None or var in inames:
                    # must fail THERE with ptera's name error
                    if not got_exc or got_exc[1] != "PteraNameError" or norm_result(out["result"]) != norm_result(rr):
                        res.violation(case, {"what": f"instrumented declared-only variable {var} not supplied: expected PteraNameError at the declaration", "got": out["result"]})
                        continue
                    if canon_log(out["log"]) != canon_log(ref["log"]):
                        res.violation(case, {"what": "PteraNameError was not raised at the point of declaration (side-effect log differs from the reference)", "diff": prorun.describe_diff(ref, out, ["log"])})
                    # details of the error object
                    err = _reraise(mod, fn, argi, m, cfg)
                    if isinstance(err, PteraNameError):
                        res.deciding += 1
                        # looked at where a user would: after the probes that instrumented the function
                        # have been left (the error object outlives them)
                        try:
                            info = dict(err.info())
                        except Exception as ex:
                            info = {"<info() failed after the probes were left>": repr(ex)}
                        if info != err._info_at_raise:
                            res.violation(case, {"what": "PteraNameError.info() differs between the moment of the raise and after the probes were left", "at_raise": repr(err._info_at_raise)[:300], "later": repr(info)[:300]})
                        exp_tags = m["decl_ann"].get(var)
                        ann = info.get("annotation")
                        ann_tags = sorted(getattr(t, "name", "?") for t in getattr(ann, "members", [ann])) if exp_tags else None
                        if err.varname != var or err.function is not getattr(err, '_fresh_fn', fn) or info.get("provenance") != "body" or (exp_tags and ann_tags != exp_tags) or (not exp_tags and ann is not int):
                            res.violation(case, {"what": "PteraNameError does not identify the variable / function / annotation / provenance", "varname": err.varname, "function_ok": err.function is getattr(err, "_fresh_fn", fn), "info": {k: repr(v)[:80] for k, v in info.items()}, "expected_tags": exp_tags})
                else:
                    if not (got_exc and got_exc[1] in ("NameError", "UnboundLocalError", "PteraNameError")):
                        res.violation(case, {"what": f"declared-only variable {var} (not instrumented, not supplied) did not produce a NameError", "got": out["result"]})
                continue
            if ref_exc and ref_exc[1] in ("NameError", "UnboundLocalError"):
                # an undefined global (or unbound local) is used on this path
                res.nontrivial_case([m["src"], argi, cfg])
                res.count("paths_using_undefined_name")
                got_exc = _first_exception(out["result"], NAME_FAMILY)
                if not got_exc or got_exc[1] not in ("NameError", "UnboundLocalError", "PteraNameError"):
                    res.violation(case, {"what": "a name undefined at the time of use did not produce a NameError", "reference": rr, "got": out["result"]})
                continue
            # otherwise: supplied (or nothing declared on the path): full equality with the twin
            if cfg["supplied"] and any(e[2] in cfg["supplied"] for e in ref["events"]):
                res.nontrivial_case([m["src"], argi, cfg])
                res.count("paths_with_supplied_declaration")
            d = [x for x in prorun.same_outcome(ref, out) if x != "cells"]
            if d == ["log"] and canon_log(ref["log"]) == canon_log(out["log"]):
                d = []
            if d:
                got_exc = _first_exception(out["result"], NAME_FAMILY)
                if (
                    trig
                    and got_exc
                    and got_exc[1] == "PteraNameError"
                    and got_exc[2] in m["undef_globals"]
                    and out["log"] == []
                ):
                    finding.append(case)
                    continue
                res.violation(case, {"what": "call differs from the reference twin (supplied values / unused undefined globals)", "diff": prorun.describe_diff(ref, out, d)})
            res.count("instr_" + cfg["instr"])
            res.count("declared_supplied_by_tag_only", len(cfg.get("bytag") or {}))


NAME_FAMILY = ("RefDeclared", "NameError", "UnboundLocalError", "PteraNameError")


def _steps(result):
    if result[0] == "gen":
        for step in result[1]:
            if step and step[0] == "final-close" and len(step) > 1:
                yield tuple(step[1:])
            else:
                yield tuple(step)
    else:
        yield tuple(result)


def _first_exception(result, classes=None):
    """First raised exception; with `classes`, the first one whose class is in classes."""
    for step in _steps(result):
        if step and step[0] == "raise" and (classes is None or step[1] in classes):
            return step
    return None


def norm_result(result):
    def n(step):
        step = tuple(step)
        if step and step[0] == "raise" and step[1] in NAME_FAMILY:
            return ("raise", "NameError-family")
        if step and step[0] == "final-close" and len(step) > 2 and step[2] in NAME_FAMILY:
            return ("final-close", "raise", "NameError-family")
        return step

    if result[0] == "gen":
        return ("gen", [n(s) for s in result[1]])
    return n(result)


def _exc_name(ref, rr):
    e = _first_exception(rr, ("RefDeclared",))
    # args repr is "('dv1',)"
    import ast

    try:
        return ast.literal_eval(e[2])[0]
    except Exception:
        return None


def _reraise(mod, fn, argi, m, cfg):
    """Run again to get hold of the exception object itself."""
    events = []
    from ptera.transform import PteraNameError

    caught = []
    orig_run = prorun.exc_outcome

    def spy(e):
        if isinstance(e, PteraNameError):
            try:
                e._info_at_raise = dict(e.info())
            except Exception as ex:  # recorded, reported by the caller
                e._info_at_raise = {"<info() failed>": repr(ex)}
        caught.append(e)
        return orig_run(e)

    prorun.exc_outcome = spy
    try:
        out, fn2 = run_config(mod, m, cfg, argi, events)
    finally:
        prorun.exc_outcome = orig_run
    for e in caught:
        if isinstance(e, PteraNameError):
            if cfg["instr"] == "tooled":
                # a fresh tooled copy was made for this run
                e._fresh_fn = fn2
            return e
    return None


def run_shard(spec):
    res = ShardResult()
    watch = AbsentWatch()
    s0, cnt = spec["range"]
    for i in range(s0, s0 + cnt):
        rnd = rng_for("C16", spec["seed"], i)
        opts = {"max_stmts": spec.get("max_stmts", 6), "declare": True}
        m = progen.build_module(rnd, opts)
        mod = prorun.load_src(m["src"], spec["scratch"], f"c16m_{i % 50}")
        case_base = {"idx": i, "seed": spec["seed"], "max_stmts": opts["max_stmts"], "program": streams.fn_source(m)[:2500], "script": m["script"], "declared": m["declared"], "undef": m["undef_globals"]}
        known = set(spec.get("known", []))
        mode = "finding" if spec.get("finding") == MECH else ("main-known" if MECH in known else "main")
        finding = []
        try:
            check_program(m, mod, rnd, res, case_base, spec["nconf"], watch, mode, finding)
        except Exception as e:
            res.violation(case_base, "harness exception: " + common.fmt_exc(e))
        for c in finding:
            if mode == "finding":
                res.finding(MECH, c)
            else:
                res.violation(c, "PteraNameError at entry for an undefined global that the path never uses")
        if i % 300 == 0:
            res.sample({"program": streams.fn_source(m)[:800], "declared": m["declared"], "undefined_globals": m["undef_globals"]})
    return res.as_dict()


def plan(tier, seed, known):
    if tier == "quick":
        n, shards, nconf, ms = 1600, 16, 3, 6
    else:
        n, shards, nconf, ms = 40000, 48, 4, 9
    specs = [{"range": [s, c], "nconf": nconf, "max_stmts": ms} for s, c in common.split_range(n, shards)]
    if MECH in known:
        specs += [{"range": [10**6 + s, c], "nconf": nconf, "max_stmts": ms, "finding": MECH} for s, c in common.split_range(800, 8)]
    return specs


def replay(case):
    res = ShardResult()
    d = common.scratch_dir("C16r")
    rnd = rng_for("C16", case["seed"], case["idx"])
    m = progen.build_module(rnd, {"max_stmts": case.get("max_stmts", 6), "declare": True})
    print(streams.fn_source(m))
    print("script:", m["script"], "config:", case.get("config"))
    mod = prorun.load_src(m["src"], d, "c16r")
    check_program(m, mod, rnd, res, {"idx": case["idx"], "seed": case["seed"]}, 4, AbsentWatch())
    return res.violations
