"""C02 - a probe's stream is exactly the binding history of its focus variable."""

from vlib import common, progen, prorun, streams
from vlib.common import ShardResult, rng_for

PROPERTY = "C02"
LEVEL = "exploration"
RULE = (
    "A case = (generated program, input, focus variable, context set, delivery mode).  Programs are the C01 program "
    "space (loops with early exits, exceptions thrown through binding statements, generators suspended between "
    "bindings and driven by next/send/throw/close scripts, closures).  For every program and input the hooked twin "
    "yields the reference binding trace; against it the monitors compare (i) the merged stream of one named selector "
    "per variable - every variable's events, in execution order, with the value bound (repr taken inside the "
    "subscriber at delivery time) and nothing else; (ii) 3 simultaneously active context probes f(C...) > v with "
    "random focus v, context sets of size 0-3 (body variables, closure and global names) delivered through "
    ".values(), raw=True or a raw Immediate overlay: event i must be {v: i-th value bound to v} plus, for each c in C, "
    "the most recent value of c at that moment, omitted if unbound.  Binding forms covered (counted in `features`): "
    "parameters of all kinds, plain / tuple / nested / starred / chained / augmented / annotated assignment, for "
    "targets, with targets (single, multi, tuple), exception names, import / import a.b / from-import-as, walrus in "
    "conditions, right-hand sides, call arguments and comprehensions.  non-trivial = a context probe delivered >= 1 "
    "event with >= 1 context value; distinct = distinct (program, input, selector)."
)
ASSUMPTIONS = [
    "The reference trace comes from the twin rendering (vlib/progen.py), whose hook placement encodes the statement's list of binding forms; twin and plain renderings are cross-checked for identical behaviour.",
    "Parameters are all bound at entry: the relative order of the parameter events, and whether another parameter already appears as context in a parameter's entry event, is not asserted.",
    "Closure/global names written by the body (nonlocal/global) are used as context only, not as focus: ptera additionally reports them at entry.",
    "The mutable logging-object parameter `o` is used as focus only, not as context (its repr changes as the program mutates it).",
    "Nested def/class names are not in the statement's list of binding forms and are not probed; `del` is not generated.",
]
MECHANISMS = {}
MIN_DECIDING = {"quick": 6000, "thorough": 120000}
SHARD_TIMEOUT = {"quick": 1200, "thorough": 7200}


def expected_context_stream(tv, focus, ctx, params, extras):
    """tv: [(name, value)] full variable trace.  Returns list of (event dict, tolerated keys)."""
    latest = dict(extras)
    out = []
    seen_non_param = False
    in_param_run = True
    pseen = set()
    for name, val in tv:
        if in_param_run and (name not in params or name in pseen):
            in_param_run = False
        if in_param_run:
            pseen.add(name)
        if name == focus:
            ev = {focus: val}
            tolerated = set()
            for c in ctx:
                if in_param_run and c in params:
                    tolerated.add(c)
                    continue
                if c in latest:
                    ev[c] = latest[c]
            out.append((ev, tolerated))
        latest[name] = val
    return out


def check_program(m, mod, rnd, res, case_base, nctx):
    from ptera import probing
    from ptera.interpret import Immediate
    from ptera.overlay import BaseOverlay, autotool
    from ptera.selector import select

    names = streams.body_names(m)
    extras = {}
    code = mod.f.__code__
    if "cv1" in code.co_freevars:
        extras["cv1"] = "41"
    if "G1" in code.co_names:
        extras["G1"] = "7"
    params = set(m["params"])
    for argi in range(min(2, m["nargs"])):
        tw, tw_out = streams.twin_events(mod, m, argi)
        tv = [(n, v) for (k, n, v) in tw if k == "var"]
        # context probes
        probes = []
        for _ in range(nctx):
            if not names:
                break
            focus = rnd.choice(names)
            pool = [n for n in names if n != focus and n != "o"] + sorted(extras)
            ctx = rnd.sample(pool, min(len(pool), rnd.randint(0, 3)))
            mode = rnd.choice(["values", "raw", "overlay"])
            sel = f"f({', '.join(ctx)}) > {focus}" if ctx else f"f > {focus}"
            probes.append({"focus": focus, "ctx": ctx, "mode": mode, "sel": sel, "out": []})
        case = dict(case_base, argi=argi, probes=[[p["sel"], p["mode"]] for p in probes])
        res.evaluations += 1
        merged = []
        cms = []
        tooled = []
        try:
            ns = vars(mod)
            mp = probing(*[f"f > {n}" for n in names], env=ns, raw=True) if names else None
            if mp is not None:
                def msub(d):
                    for k, c in d.items():
                        merged.append((c.name, prorun.norm(c.value)))
                mp.subscribe(msub)
                cms.append(mp)
            for p in probes:
                if p["mode"] == "overlay":
                    so = select(p["sel"], env=ns)
                    autotool(so)
                    tooled.append(so)
                    cms.append(BaseOverlay(Immediate(so, trigger=lambda d, p=p: p["out"].append({k: prorun.norm(c.value) for k, c in d.items()}))))
                elif p["mode"] == "raw":
                    pr = probing(p["sel"], env=ns, raw=True)
                    pr.subscribe(lambda d, p=p: p["out"].append({k: prorun.norm(c.value) for k, c in d.items()}))
                    cms.append(pr)
                else:
                    pr = probing(p["sel"], env=ns)
                    pr.subscribe(lambda d, p=p: p["out"].append({k: prorun.norm(v) for k, v in d.items()}))
                    cms.append(pr)
            entered = []
            try:
                for cm in cms:
                    cm.__enter__()
                    entered.append(cm)
                out = prorun.run_call(mod, mod.f, argi, m["script"])
            finally:
                for cm in reversed(entered):
                    cm.__exit__(None, None, None)
        except Exception as e:
            res.violation(case, {"what": "exception while probing", "error": common.fmt_exc(e)[-1500:]})
            for so in tooled:
                try:
                    autotool(so, undo=True)
                except Exception:
                    pass
            continue
        for so in reversed(tooled):
            autotool(so, undo=True)
        # the call itself must behave like the twin (sanity of the comparison)
        d = prorun.same_outcome({k: v for k, v in tw_out.items()}, out)
        d = [x for x in d if x != "cells"]
        if d:
            res.violation(case, {"what": "probed call behaves differently from the reference twin", "diff": prorun.describe_diff(tw_out, out, d)})
            continue
        # (i) merged per-variable streams
        res.deciding += 1
        exp_m = streams.sort_runs([(n, v) for (n, v) in tv if n in names], params)
        got_m = streams.sort_runs(merged, params)
        if exp_m != got_m:
            res.violation(case, {"what": "merged per-variable stream differs from the binding history", **streams.first_diff(exp_m, got_m)})
        res.count("binding_events", len(exp_m))
        # (ii) context probes
        for p in probes:
            res.deciding += 1
            exp = expected_context_stream(tv, p["focus"], p["ctx"], params, extras)
            got = p["out"]
            ok = len(exp) == len(got)
            if ok:
                for (ev, tol), g in zip(exp, got):
                    g2 = {k: v for k, v in g.items() if k not in tol}
                    if g2 != ev or not set(g) <= set(ev) | tol:
                        ok = False
                        break
            if not ok:
                res.violation(case, {"what": "context probe stream differs", "selector": p["sel"], "mode": p["mode"], "expected": [e for e, _ in exp][:6], "got": got[:6], "n_expected": len(exp), "n_got": len(got)})
            if any(len(ev) > 1 for ev, _ in exp):
                res.nontrivial_case([m["src"], argi, p["sel"], p["mode"]])
            res.count("context_events", len(exp))
    for f in m["features"]:
        res.count("feat_" + f)


def run_shard(spec):
    res = ShardResult()
    s0, cnt = spec["range"]
    for i in range(s0, s0 + cnt):
        rnd = rng_for("C02", spec["seed"], i)
        opts = {"max_stmts": spec.get("max_stmts", 7)}
        m = progen.build_module(rnd, opts)
        mod = prorun.load_src(m["src"], spec["scratch"], f"c02m_{i % 50}")
        case_base = {"idx": i, "seed": spec["seed"], "max_stmts": opts["max_stmts"], "program": streams.fn_source(m)[:2500], "script": m["script"]}
        try:
            check_program(m, mod, rnd, res, case_base, spec["nctx"])
        except Exception as e:
            res.violation(case_base, "harness exception: " + common.fmt_exc(e))
        if i % 300 == 0:
            res.sample({"program": streams.fn_source(m)[:800], "script": m["script"], "features": m["features"]})
    return res.as_dict()


def plan(tier, seed, known):
    if tier == "quick":
        n, shards, nctx, ms = 1600, 16, 3, 7
    else:
        n, shards, nctx, ms = 50000, 48, 4, 10
    return [{"range": [s, c], "nctx": nctx, "max_stmts": ms} for s, c in common.split_range(n, shards)]


def replay(case):
    res = ShardResult()
    d = common.scratch_dir("C02r")
    rnd = rng_for("C02", case["seed"], case["idx"])
    m = progen.build_module(rnd, {"max_stmts": case.get("max_stmts", 7)})
    print(streams.fn_source(m))
    print("script:", m["script"], "probes:", case.get("probes"))
    mod = prorun.load_src(m["src"], d, "c02r")
    check_program(m, mod, rnd, res, {"idx": case["idx"], "seed": case["seed"]}, len(case.get("probes", [])) or 3)
    return res.violations
