"""C01 - instrumentation is transparent when nothing is overridden."""

import collections

from vlib import common, progen, prorun
from vlib.common import ShardResult, rng_for

PROPERTY = "C01"
LEVEL = "exploration"
RULE = (
    "A case = (generated program, input, instrumentation configuration).  Programs come from vlib/progen.py "
    "(2-10 statements, nesting <= 3: assignments to names / tuples / nested tuples / starred targets / attributes / "
    "subscripts with side-effecting index, chained, augmented and annotated assignment, for/while/if/try/with, walrus, "
    "imports, nested def/class/lambda/comprehensions, return/yield incl. generators driven by next/send/throw/close/"
    "drop scripts, global/nonlocal, closures, all parameter kinds); inputs include non-indexable and one-shot "
    "iterables and wrong-length unpacking.  Configurations: tooled(f); tooled.inplace(f); 1-3 non-overriding "
    "probes over random (thorough: all, for <= 5 names) subsets of the variables in focus and context positions, "
    "generic $x, meta-variables; raw BaseOverlay(Immediate|Total) after autotool; and the function after "
    "deactivation.  Oracle: result (type+repr) / exception (class+args) / yielded-received sequence / ordered "
    "side-effect log of every leaf expression and helper / final state of mutable arguments and written globals must "
    "equal the untouched function's; an InteractLog monitor additionally checks that no variable outside the "
    "union of capture sets is routed through interact().  non-trivial = the instrumented run routed >= 1 binding through "
    "interact(); distinct = distinct (program, input, configuration) triples; feature sets are counted in `features`."
)
ASSUMPTIONS = [
    "Bare annotations and globals rebound during the call (the two documented exceptions) are not generated here (C16 covers declarations).",
    "Exception messages, tracebacks, and function reprs' addresses are not compared; NameError subclasses compare by class only.",
    "Side effects at activation time (ptera re-executes the `def`) are outside the statement, which is about calling.",
    "gen.throw(StopIteration) is not generated: `yield from` delegation (used by the generator-suspension fix) absorbs a thrown StopIteration.",
]
MECH_NESTED_GLOBAL = "global-read-by-nested-function-snapshotted-at-entry"
MECHANISMS = {
    MECH_NESTED_GLOBAL: "a module global that only a function nested in f reads is pre-fetched when the instrumented f is entered and handed to the nested function as a closure variable: a closure that outlives the call keeps the value the global had at that moment (def make(): def inner(): return G; return inner - rebind G after make() returned: the original inner() sees the new value, the one made by the instrumented make() the old one)",
}
MIN_DECIDING = {"quick": 4000, "thorough": 80000}
SHARD_TIMEOUT = {"quick": 1200, "thorough": 7200}

METAS = ["#enter", "#exit", "#value", "#error", "#yield", "#receive"]


class InteractLog:
    """Monitor on Interactor.interact: records which variable names are routed through it."""

    def __init__(self):
        from ptera.interpret import Interactor

        self.names = []
        self.cls = Interactor
        self.orig = Interactor.interact
        mon = self

        def interact(itor, varname, key, category, value, overridable):
            mon.names.append(varname)
            return mon.orig(itor, varname, key, category, value, overridable)

        Interactor.interact = interact

    def reset(self):
        self.names = []


def gen_config(rnd, m, exhaustive_subset=None):
    """Return a config descriptor: ('tooled',) ('inplace',) ('probing', [selectors], allowed names) ('overlay', ...)"""
    names = [n for n in m["names"] if not n.startswith("_")]
    r = rnd.random()
    if r < 0.15:
        return ["tooled"]
    if r < 0.25:
        return ["inplace"]
    kind = "probing" if r < 0.8 else "overlay"
    sels = []
    allowed = set()
    generic = False
    nsel = rnd.choice([1, 1, 2, 3])
    for _ in range(nsel):
        k = rnd.random()
        pool = names + (m["loopvars"] and [f"#loop_{v}" for v in m["loopvars"]] or [])
        if exhaustive_subset is not None:
            sub = list(exhaustive_subset)
        else:
            sub = rnd.sample(names, rnd.randint(1, min(3, len(names)))) if names else []
        if k < 0.15:
            sels.append("f > $x")
            generic = True
        elif k < 0.3:
            meta = rnd.choice(METAS + [f"#loop_{v}" for v in m["loopvars"]] + [f"#endloop_{v}" for v in m["loopvars"]])
            ctx = ", ".join(sub[:2])
            sels.append(f"f({ctx}) > {meta}" if ctx else f"f > {meta}")
            allowed.update(sub[:2] + [meta])
        elif k < 0.45 and sub:
            sels.append("f(" + ", ".join(sub) + ")")  # total
            allowed.update(sub)
        elif sub:
            focus = sub[-1]
            ctx = ", ".join(sub[:-1])
            sels.append(f"f({ctx}) > {focus}" if ctx else f"f > {focus}")
            allowed.update(sub)
        else:
            sels.append("f > #enter")
            allowed.add("#enter")
    return [kind, sels, sorted(allowed), generic]


def run_config(mod, m, cfg, argi, ilog):
    """Returns (outcome, info)."""
    from ptera import probing, tooled
    from ptera.interpret import Immediate, Total
    from ptera.overlay import BaseOverlay, autotool
    from ptera.selector import select

    ns = vars(mod)
    ilog.reset()
    info = {}
    if cfg[0] == "tooled":
        fn = tooled(mod.f)
        out = prorun.run_call(mod, fn, argi, m["script"])
    elif cfg[0] == "inplace":
        tooled.inplace(mod.f)
        out = prorun.run_call(mod, mod.f, argi, m["script"])
    elif cfg[0] == "probing":
        with probing(*cfg[1], env=ns, raw=True) as prb:
            prb.subscribe(lambda d: None)
            out = prorun.run_call(mod, mod.f, argi, m["script"])
    else:
        hs = []
        selobjs = []
        for s in cfg[1]:
            so = select(s, env=ns)
            selobjs.append(so)
            if so.focus:
                hs.append(Immediate(so, trigger=lambda d: None))
            else:
                hs.append(Total(so, close=lambda d: None))
        done = []
        try:
            for so in selobjs:
                autotool(so)
                done.append(so)
            with BaseOverlay(*hs):
                out = prorun.run_call(mod, mod.f, argi, m["script"])
        finally:
            for so in reversed(done):
                autotool(so, undo=True)
    info["interacted"] = list(ilog.names)
    return out, info


def check_program(m, mod_loader, rnd, res, case_base, nconfigs, exhaustive=False):
    ilog = check_program.ilog
    mod = mod_loader()
    orig_code = mod.f.__code__
    names = [n for n in m["names"] if not n.startswith("_")]
    configs = []
    if exhaustive and len(names) <= 5:
        import itertools

        for k in range(1, len(names) + 1):
            for sub in itertools.combinations(names, k):
                configs.append(gen_config(rnd, m, exhaustive_subset=sub))
        configs = [c for c in configs if c[0] in ("probing", "overlay")][:40] + [["tooled"]]
    else:
        configs = [gen_config(rnd, m) for _ in range(nconfigs)]
    # inplace changes the function for good: run it last on its own module copy
    configs.sort(key=lambda c: c[0] == "inplace")
    for argi in range(m["nargs"] if exhaustive else min(2, m["nargs"])):
        plain = prorun.run_call(mod, mod.f, argi, m["script"])
        for cfg in configs:
            case = dict(case_base, config=cfg, argi=argi)
            res.evaluations += 1
            target = mod
            if cfg[0] == "inplace":
                target = mod_loader()
                plain_here = prorun.run_call(target, target.f, argi, m["script"])
                if prorun.same_outcome(plain, plain_here):
                    res.violation(case, "generated program is not deterministic across module copies (harness problem)")
                    continue
            try:
                out, info = run_config(target, m, cfg, argi, ilog)
            except Exception as e:
                res.deciding += 1
                res.violation(case, {"what": "instrumentation/activation raised", "error": common.fmt_exc(e)[-1200:], "features": m["features"]})
                mod = mod_loader()
                orig_code = mod.f.__code__
                plain = prorun.run_call(mod, mod.f, argi, m["script"])
                continue
            res.deciding += 1
            diffs = prorun.same_outcome(plain, out)
            if diffs:
                res.violation(case, {"what": "instrumented call differs from the untouched function", "diff": prorun.describe_diff(plain, out, diffs), "features": m["features"]})
            if cfg[0] in ("probing", "overlay") and not cfg[3]:
                allowed = set(cfg[2])
                extra = sorted({n for n in info["interacted"] if n not in allowed and not n.startswith("#")})
                res.deciding += 1
                if extra:
                    res.violation(case, {"what": "variables outside the capture sets were routed through interact()", "extra": extra, "capture_sets": cfg[2]})
            if info["interacted"]:
                res.nontrivial_case([m["src"], argi, cfg])
            res.count("cfg_" + cfg[0])
            # (e) after deactivation: original code object, same behaviour
            if cfg[0] in ("probing", "overlay"):
                res.deciding += 1
                if target.f.__code__ is not orig_code:
                    res.violation(case, "after deactivation the function does not run its original code object")
                else:
                    again = prorun.run_call(target, target.f, argi, m["script"])
                    d2 = prorun.same_outcome(plain, again)
                    if d2:
                        res.violation(case, {"what": "call after deactivation differs", "diff": prorun.describe_diff(plain, again, d2)})
    for f in m["features"]:
        res.count("feat_" + f)


def options_for(known):
    return {"exclude": sorted(EXCLUDE_FOR.get(k) for k in known if k in EXCLUDE_FOR)}


EXCLUDE_FOR = {}


# Hand-written shapes that the generator does not produce (each defines f; `names` are the variables
# that may be probed, `args` the argument lists, `script` drives a generator)
SHAPES = [
    {   # a global declaration alone in a block
        "body": "def f(p):\n    if p:\n        global G2\n    G2 = p + 1\n    return G2 + __s__(1, 0)\n",
        "names": ["p"], "args": ["((0,), {})", "((3,), {})"]},
    {   # a closure variable that is not set when the function runs
        "body": "def factory():\n    def f(p):\n        z = __s__(1, p)\n        if p > 5:\n            return late + z\n        return z\n    if False:\n        late = 1\n    return f\nf = factory()\n",
        "names": ["p", "z"], "args": ["((1,), {})", "((9,), {})"]},
    {   # a functools.wraps wrapper (it, not the function it wraps, is what is called)
        "body": "import functools\ndef _deco(fn):\n    @functools.wraps(fn)\n    def wrapper(p):\n        q = fn(p) * 2\n        return q + __s__(2, 0)\n    return wrapper\n@_deco\ndef f(p):\n    y = __s__(1, p) + 1\n    return y\n",
        "names": ["p", "y"], "args": ["((1,), {})", "((4,), {})"]},  # selectors through f reach the wrapped function
    {   # attributes stored on the function by a decorator
        "body": "def _mark(fn):\n    fn.bias = 10\n    return fn\n@_mark\ndef f(p):\n    y = __s__(1, p)\n    return y\n",
        "names": ["p", "y"], "args": ["((1,), {})"], "attr": "bias"},
    {   # delegation to an iterator that has close() but no throw(); an exception is thrown in
        "body": "class _It:\n    def __iter__(self):\n        return self\n    def __next__(self):\n        return __s__(1, 7)\n    def close(self):\n        LOG.append(('closed',))\ndef f(p):\n    try:\n        yield from _It()\n    except ValueError:\n        yield __s__(2, p)\n",
        "names": ["p"], "args": ["((1,), {})"], "script": [["next"], ["throw", "ValueError"], ["next"]]},
    {   # class-private names in a function defined in a class body
        "body": "class _K:\n    __bias = 5\n    def f(p):\n        y = __s__(1, p) + _K.__bias\n        return y\nf = _K.f\n",
        "names": ["p", "y"], "args": ["((1,), {})"]},
    {   # a closure variable that only a variable annotation uses
        "body": "def factory():\n    T = int\n    def f(p):\n        a: T = __s__(1, p) + 1\n        return a\n    return f\nf = factory()\n",
        "names": ["p", "a"], "args": ["((1,), {})"]},
    {   # a comprehension variable named like a global that the function reads; __debug__
        "body": "LIMIT = 3\ndef f(p):\n    kept = [LIMIT + __s__(1, 0) for LIMIT in [p, p + 1]]\n    if __debug__:\n        y = LIMIT + kept[0]\n    return y\n",
        "names": ["p", "kept", "y", "LIMIT"], "args": ["((1,), {})"]},
    {   # comprehensions with several for clauses: a later iterable / filter reads an earlier variable
        "body": "def f(p):\n    rows = [[p, __s__(1, p)], [p + 1]]\n    flat = [c + __s__(2, 0) for row in rows for c in row if row]\n    pairs = {a: b for a in flat for b in [a, p] if a != b}\n    return flat, pairs\n",
        "names": ["p", "rows", "flat", "pairs"], "args": ["((1,), {})", "((5,), {})"]},
    {   # a comprehension variable named like the global its outermost iterable reads
        "body": "ITEMS = [3, 4]\ndef f(p):\n    got = [ITEMS + __s__(1, p) for ITEMS in ITEMS]\n    return got\n",
        "names": ["p", "got", "ITEMS"], "args": ["((1,), {})"]},
    {   # functools.wraps of something that is not a Python function
        "body": "import functools\n@functools.wraps(len)\ndef f(p):\n    n = len([p]) + __s__(1, p)\n    return n\n",
        "names": ["p", "n"], "args": ["((1,), {})"]},
    {   # a with statement with several items, a lambda assigning, a match guard, a multi-line string
        "body": "def f(p):\n    with CM(1, p) as w1, CM(2, w1 + 1) as w2:\n        a = (lambda: (w1 := 99))() + w1\n    match [a, w2]:\n        case [b, c] if b > 1000:\n            r = 1\n        case [b, c]:\n            r = len(\"\"\"x\n    y\"\"\") + b + c\n    return r\n",
        "names": ["w1", "w2", "a", "b", "c", "r"], "args": ["((1,), {})", "((2000,), {})"]},
]


def shape_module(k):
    sh = SHAPES[k]
    src = progen.PRELUDE + "\n" + sh["body"] + "\ndef make_args(i):\n" + "".join(f"    if i == {i}: return {a}\n" for i, a in enumerate(sh["args"])) + "    raise IndexError(i)\n"
    return {"src": src, "names": sh["names"], "nargs": len(sh["args"]), "script": sh.get("script"), "features": [f"shape_{k}"], "is_gen": bool(sh.get("script")),
            "params": ["p"], "loopvars": [], "anns": {}, "declared": [], "attr": sh.get("attr")}


def check_shapes(spec, res):
    for k in range(len(SHAPES)):
        m = shape_module(k)
        counter = [0]

        def loader(m=m, k=k, counter=counter):
            counter[0] += 1
            return prorun.load_src(m["src"], spec["scratch"], f"c01shape_{k}_{counter[0]}")

        rnd = rng_for("C01shape", spec["seed"], k)
        case_base = {"shape": k, "seed": spec["seed"], "src": m["src"], "script": m["script"]}
        try:
            check_program(m, loader, rnd, res, case_base, 6)
            if m["attr"]:
                from ptera import tooled

                mod = loader()
                res.evaluations += 1
                res.deciding += 1
                if getattr(tooled(mod.f), m["attr"], None) != getattr(mod.f, m["attr"]):
                    res.violation(case_base, {"what": f"tooled(f) lost the attribute {m['attr']!r} that a decorator stored on f"})
        except Exception as e:
            res.violation(case_base, "harness exception: " + common.fmt_exc(e))
        res.count("hand_written_shapes")


def check_global_shadowing(spec, res):
    """Sequence: an instrumented function that uses a builtin is called, then a module global of the
    same name appears, then it is called again - each call looks the name up like Python does
    (globals before builtins), at the time of that call."""
    from ptera import probing, tooled

    body = "def f(p):\n    y = len([p, p]) + __s__(1, 0)\n    return y\n"
    src = progen.PRELUDE + "\n" + body + "\ndef make_args(i):\n    return ((i,), {})\n"
    m = {"src": src, "script": None}
    for mode in ("tooled", "inplace", "probe-on-name", "probe-other"):
        mod = prorun.load_src(src, spec["scratch"], f"c01shadow_{mode.replace('-', '_')}")
        ref = prorun.load_src(src, spec["scratch"], f"c01shadowref_{mode.replace('-', '_')}")
        res.evaluations += 1
        res.deciding += 1
        case = {"shadowing": mode, "src": src}
        try:
            fn, cm = mod.f, None
            if mode == "tooled":
                fn = tooled(mod.f)
            elif mode == "inplace":
                tooled.inplace(mod.f)
            else:
                cm = probing("f > len" if mode == "probe-on-name" else "f > y", env=vars(mod))
                cm.__enter__()
            try:
                outs, refs = [], []
                outs.append(prorun.run_call(mod, fn, 0, None))
                refs.append(prorun.run_call(ref, ref.f, 0, None))
                mod.len = ref.len = lambda seq: 1000  # a module global now shadows the builtin
                outs.append(prorun.run_call(mod, fn, 1, None))
                refs.append(prorun.run_call(ref, ref.f, 1, None))
                del mod.len, ref.len
                outs.append(prorun.run_call(mod, fn, 2, None))
                refs.append(prorun.run_call(ref, ref.f, 2, None))
            finally:
                if cm is not None:
                    cm.__exit__(None, None, None)
        except Exception as e:
            res.violation(case, {"what": "exception in the shadowing sequence", "error": common.fmt_exc(e)[-1000:]})
            continue
        for step, (o, r) in enumerate(zip(outs, refs)):
            d = [x for x in prorun.same_outcome(r, o) if x != "args"]
            if d:
                res.violation(dict(case, step=step), {"what": "instrumented call differs from the untouched function after a global started / stopped shadowing a builtin", "diff": prorun.describe_diff(r, o, d)})
        res.count("global_shadowing_sequences")


def check_nested_global_snapshot(spec, res, known):
    """Sequence: the instrumented f returns a closure that reads a module global; the global is
    rebound after f has returned; the closure is called.  (Globals rebound *during* the call are the
    documented exception; this is after it.)"""
    from ptera import probing, tooled

    body = "G5 = 1\ndef f(p):\n    def inner(q):\n        return G5 + q + __s__(1, 0)\n    return inner\n"
    src = progen.PRELUDE + "\n" + body
    for mode in ("tooled", "inplace", "probe-on-global", "probe-other"):
        mod = prorun.load_src(src, spec["scratch"], f"c01nested_{mode.replace('-', '_')}")
        res.evaluations += 1
        res.deciding += 1
        case = {"nested_global": mode, "src": body}
        try:
            fn, cm = mod.f, None
            if mode == "tooled":
                fn = tooled(mod.f)
            elif mode == "inplace":
                tooled.inplace(mod.f)
            else:
                cm = probing("f > G5" if mode == "probe-on-global" else "f > p", env=vars(mod))
                cm.__enter__()
            try:
                inner = fn(0)
                before = inner(10)
                mod.G5 = 500
                after = inner(10)
            finally:
                if cm is not None:
                    cm.__exit__(None, None, None)
        except Exception as e:
            res.violation(case, {"what": "exception in the nested-global sequence", "error": common.fmt_exc(e)[-1000:]})
            continue
        res.count("nested_global_sequences")
        if (before, after) != (11, 510):
            why = {"what": "a closure returned by the instrumented function does not see the rebound global", "got": [before, after], "untouched": [11, 510]}
            if MECH_NESTED_GLOBAL in known and (before, after) == (11, 11):
                res.finding(MECH_NESTED_GLOBAL, {"case": case, "why": why})
            else:
                res.violation(case, why)


def run_shard(spec):
    res = ShardResult()
    check_program.ilog = InteractLog()
    s0, cnt = spec["range"]
    known = spec.get("known", [])
    if s0 == 0:
        check_shapes(spec, res)
        check_global_shadowing(spec, res)
        check_nested_global_snapshot(spec, res, known)
    for i in range(s0, s0 + cnt):
        rnd = rng_for("C01", spec["seed"], i)
        opts = dict(options_for(known))
        opts["max_stmts"] = spec.get("max_stmts", 8)
        m = progen.build_module(rnd, opts)
        counter = [0]

        def loader(m=m, i=i, counter=counter):
            counter[0] += 1
            return prorun.load_src(m["src"], spec["scratch"], f"c01m_{i % 50}_{counter[0]}")

        case_base = {"idx": i, "seed": spec["seed"], "src": m["src"], "script": m["script"], "max_stmts": opts["max_stmts"], "exclude": opts["exclude"]}
        try:
            check_program(m, loader, rnd, res, case_base, spec["nconfigs"], exhaustive=spec.get("exhaustive", False))
        except Exception as e:
            res.violation(case_base, "harness exception: " + common.fmt_exc(e))
        if i % 300 == 0:
            res.sample({"program": m["src"][m["src"].index("def f("):][:900], "script": m["script"], "features": m["features"]})
    return res.as_dict()


def plan(tier, seed, known):
    if tier == "quick":
        n, shards, nconf = 2400, 16, 3
        specs = [{"range": [s, c], "nconfigs": nconf, "max_stmts": 8} for s, c in common.split_range(n, shards)]
    else:
        n, shards, nconf = 40000, 48, 5
        specs = [{"range": [s, c], "nconfigs": nconf, "max_stmts": 12} for s, c in common.split_range(n, shards)]
        specs += [{"range": [10**6 + s, c], "nconfigs": 0, "max_stmts": 4, "exhaustive": True} for s, c in common.split_range(6000, 16)]
    return specs


def replay(case):
    import random

    res = ShardResult()
    check_program.ilog = InteractLog()
    d = common.scratch_dir("C01r")
    if "idx" not in case:
        # hand-written batteries: re-run the battery the case came from, report its violations
        spec = {"scratch": d, "seed": case.get("seed", 0)}
        if "nested_global" in case:
            check_nested_global_snapshot(spec, res, [])
        elif "shadowing" in case:
            check_global_shadowing(spec, res)
        else:
            check_shapes(spec, res)
        for v in res.violations:
            print("PROBLEM:", str(v["why"])[:600])
        return res.violations
    rnd = rng_for("C01", case["seed"], case["idx"])
    m = progen.build_module(rnd, {"exclude": case.get("exclude", []), "max_stmts": case.get("max_stmts", 8)})
    assert m["src"] == case["src"], "generator drifted: replaying stored source is not possible for this case"
    print(m["src"][m["src"].index("def f("):m["src"].index("def f_T(") if "def f_T(" in m["src"] else None])
    print("config:", case.get("config"), "input:", case.get("argi"), "script:", case.get("script"))
    cnt = [0]

    def loader():
        cnt[0] += 1
        return prorun.load_src(m["src"], d, f"c01r_{cnt[0]}")

    cfg = case.get("config")
    mod = loader()
    ilog = check_program.ilog
    argi = case.get("argi", 0)
    plain = prorun.run_call(mod, mod.f, argi, m["script"])
    try:
        out, info = run_config(mod, m, cfg, argi, ilog)
    except Exception as e:
        res.violation(case, "instrumentation raised: " + common.fmt_exc(e))
        return res.violations
    diffs = prorun.same_outcome(plain, out)
    print("plain:", plain["result"], "\ninstrumented:", out["result"])
    if diffs:
        res.violation(case, prorun.describe_diff(plain, out, diffs))
    if cfg[0] in ("probing", "overlay") and not cfg[3]:
        extra = sorted({n for n in info["interacted"] if n not in set(cfg[2]) and not n.startswith("#")})
        if extra:
            res.violation(case, {"extra interact": extra})
    return res.violations
