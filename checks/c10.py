"""C10 - every name a function binds or reads is selectable; absent names are refused."""

import symtable
import textwrap

from vlib import common, progen, prorun, streams
from vlib.common import ShardResult, rng_for

PROPERTY = "C10"
LEVEL = "exploration"
RULE = (
    "A case = (generated function, identifier).  Functions come from vlib/progen.py with bindings placed inside "
    "except / with / for / try-finally / else blocks, nested class and def statements, comprehension and walrus "
    "variables, global and nonlocal declarations, closures.  The oracle is Python's own symtable.symtable() of the same "
    "source: for every symbol of f's table, parameter -> 'argument', local -> 'body', free -> 'closure', global "
    "(implicit, explicit or builtin) -> 'external'.  For each such name v the monitor activates probing('f > v'), "
    "requires success and f.__ptera_info__[v]['provenance'] == the mapping; for fresh identifiers occurring nowhere "
    "in the source, unknown meta-variables (#foo) and unresolvable function names it requires SelectorError raised "
    "before anything runs (no interact() call, instrument_count back to 0, original code object); for objects that "
    "are not instrumentable Python functions (builtin, class, instance, partial, method descriptor, lambda, async def, "
    "function without source, generator object) it requires TypeError with the same clean state.  non-trivial = "
    "functions with >= 1 name of each of >= 3 provenances; distinct = distinct (function source, identifier)."
)
ASSUMPTIONS = [
    "Names that occur only inside nested def / lambda / comprehension scopes are not in f's own symbol table and are not asserted either way; a closure variable of f that only a nested def or class body reads IS asserted (it is free in f), one that is merely declared nonlocal and never used is not.",
    "Iteration variables of comprehensions are the comprehension's own and are not asserted (CPython 3.12 inlines comprehensions, so symtable lists them among f's locals, but they are not visible in f).",
    "Names that f mentions only inside annotations are not asserted either way: Python does not evaluate the annotations of parameters and local variables when f runs, so they are not names the body reads (symtable lists them as referenced).",
    "Python's symtable is the arbiter of scoping; a name declared `global` in f is 'external' even when f assigns it.",
]
MECHANISMS = {}
MIN_DECIDING = {"quick": 15000, "thorough": 300000}
SHARD_TIMEOUT = {"quick": 1200, "thorough": 7200}


def f_table(src):
    top = symtable.symtable(src, "<gen>", "exec")

    def find(tab, path):
        for ch in tab.get_children():
            if ch.get_name() == path[0] and ch.get_type() == "function":
                return ch if len(path) == 1 else find(ch, path[1:])
        return None

    return find(top, ["factory", "f"]) or find(top, ["f"])


def annotation_only_names(src):
    """Names that f mentions only inside annotations (of its parameters, its return value or its
    local variables).  Python does not evaluate those when f runs, so f's body does not read them
    although symtable lists them as referenced."""
    import ast

    tree = ast.parse(src)
    fdef = None
    for node in ast.walk(tree):
        if isinstance(node, ast.FunctionDef) and node.name == "f":
            fdef = node
            break
    if fdef is None:
        return set()
    ann_nodes = []

    def own_nodes(node):
        # the nodes of f's own scope (nested function / lambda / class bodies are other scopes; the
        # annotations in the signature of a nested def ARE evaluated by f when it executes the def)
        for ch in ast.iter_child_nodes(node):
            yield ch
            if not isinstance(ch, (ast.FunctionDef, ast.AsyncFunctionDef, ast.Lambda, ast.ClassDef)):
                yield from own_nodes(ch)

    for a in [*fdef.args.posonlyargs, *fdef.args.args, fdef.args.vararg, *fdef.args.kwonlyargs, fdef.args.kwarg]:
        if a is not None and a.annotation is not None:
            ann_nodes.append(a.annotation)
    if fdef.returns is not None:
        ann_nodes.append(fdef.returns)
    for stmt in fdef.body:
        for node in [stmt, *own_nodes(stmt)]:
            if isinstance(node, ast.AnnAssign):
                ann_nodes.append(node.annotation)
    in_ann = set()
    ann_ids = set()
    for a in ann_nodes:
        for n in ast.walk(a):
            ann_ids.add(id(n))
            if isinstance(n, ast.Name):
                in_ann.add(n.id)
    elsewhere = {n.id for n in ast.walk(fdef) if isinstance(n, ast.Name) and id(n) not in ann_ids}
    return in_ann - elsewhere


def comprehension_only_names(src):
    """Names that f binds only as iteration variables of comprehensions.  They are the comprehension's
    own (not visible in f after it), although CPython 3.12 inlines comprehensions and symtable then
    lists them among f's locals."""
    import ast

    tree = ast.parse(src)
    fdef = next((n for n in ast.walk(tree) if isinstance(n, ast.FunctionDef) and n.name == "f"), None)
    if fdef is None:
        return set()
    comp_ids, comp_names = set(), set()
    for node in ast.walk(fdef):
        if isinstance(node, (ast.ListComp, ast.SetComp, ast.DictComp, ast.GeneratorExp)):
            own = {n.id for g in node.generators for n in ast.walk(g.target) if isinstance(n, ast.Name)}
            comp_names |= own
            # (the outermost iterable is evaluated by f itself, before the comprehension starts:
            # a name it reads is f's, even when the comprehension variable has the same name)
            first_iter = {id(n) for n in ast.walk(node.generators[0].iter)}
            for n in ast.walk(node):
                if isinstance(n, ast.Name) and n.id in own and id(n) not in first_iter:
                    comp_ids.add(id(n))
    def own(node):
        # f's own scope: nested functions, lambdas and classes are other scopes
        for ch in ast.iter_child_nodes(node):
            if isinstance(ch, (ast.FunctionDef, ast.AsyncFunctionDef, ast.Lambda, ast.ClassDef)):
                continue
            yield ch
            yield from own(ch)

    elsewhere = {n.id for n in own(fdef) if isinstance(n, ast.Name) and id(n) not in comp_ids}
    a = fdef.args
    elsewhere |= {x.arg for x in [*a.posonlyargs, *a.args, a.vararg, *a.kwonlyargs, a.kwarg] if x is not None}
    return comp_names - elsewhere


def definition_time_only_names(src):
    """Names that occur only in f's own default values and decorators: they are evaluated when f is
    defined, by the enclosing scope - f itself never reads them."""
    import ast

    tree = ast.parse(src)
    fdef = next((n for n in ast.walk(tree) if isinstance(n, ast.FunctionDef) and n.name == "f"), None)
    if fdef is None:
        return set()
    outside = [*fdef.decorator_list, *fdef.args.defaults, *[d for d in fdef.args.kw_defaults if d is not None]]
    out_ids = {id(n) for e in outside for n in ast.walk(e)}
    out_names = {n.id for e in outside for n in ast.walk(e) if isinstance(n, ast.Name)}
    inside = {n.id for n in ast.walk(fdef) if isinstance(n, ast.Name) and id(n) not in out_ids}
    inside |= {a.arg for a in ast.walk(fdef) if isinstance(a, ast.arg)}
    return out_names - inside - {"f"}


def nested_reads(tab, name):
    """A class body or function nested in `tab` reads the free variable `name` (so the enclosing
    function's body reads it, textually, although its own statements do not)."""
    for ch in tab.get_children():
        try:
            sym = ch.lookup(name)
        except KeyError:
            continue
        if sym.is_free() and (sym.is_referenced() or nested_reads(ch, name)):
            return True
    return False


def expected_provenance(sym):
    if sym.is_parameter():
        return "argument"
    if sym.is_free():
        return "closure"
    if sym.is_global():
        return "external"
    if sym.is_local():
        return "body"
    return None


class InteractCount:
    def __init__(self):
        from ptera.interpret import Interactor

        self.n = 0
        orig = Interactor.interact
        mon = self

        def interact(itor, *a):
            mon.n += 1
            return orig(itor, *a)

        Interactor.interact = interact


def clean_state(fn, orig_code):
    st = getattr(fn, "__ptera_stack__", None)
    probs = []
    if st is not None and st.instrument_count != 0:
        probs.append(f"instrument_count={st.instrument_count}")
    if st is not None and any(v != 0 for v in st.captures.values()):
        probs.append("capture counters not zero")
    if getattr(fn, "__code__", orig_code) is not orig_code:
        probs.append("not running the original code object")
    return probs


def check_program(m, mod, res, case_base, icount):
    from ptera import probing
    from ptera.overlay import HandlerCollection
    from ptera.selector import SelectorError

    tab = f_table(m["src"])
    ns = vars(mod)
    f = mod.f
    orig = f.__code__
    provs = set()
    ann_only = annotation_only_names(m["src"]) | comprehension_only_names(m["src"])
    for sym in tab.get_symbols():
        name = sym.get_name()
        if name.startswith("."):
            continue
        if name in ann_only:
            res.count("names_only_in_annotations_not_asserted")
            continue
        exp = expected_provenance(sym)
        if exp is None:
            continue
        if not (sym.is_referenced() or sym.is_assigned() or sym.is_parameter() or sym.is_imported() or (sym.is_free() and nested_reads(tab, name))):
            continue  # declared (global/nonlocal) but neither read nor bound by the body
        case = dict(case_base, name=name, expected=exp)
        res.evaluations += 1
        res.deciding += 1
        provs.add(exp)
        try:
            prb = probing(f"f > {name}", env=ns)
            prb.__enter__()
        except Exception as e:
            res.violation(case, {"what": f"activation of 'f > {name}' was refused although Python scopes {name} as {exp} in f", "error": f"{type(e).__name__}: {str(e)[:300]}"})
            probs = clean_state(f, orig)
            if probs:
                f = mod.f = None  # poisoned
                return
            continue
        try:
            info = f.__ptera_info__.get(name)
            got = info and info["provenance"]
            if got != exp:
                res.violation(case, {"what": "recorded provenance disagrees with Python's scoping", "recorded": got, "python": exp})
        finally:
            prb.__exit__(None, None, None)
        res.count("prov_" + exp)
        if exp == "closure" and not sym.is_referenced():
            res.count("closure_names_read_only_by_nested_scopes")
    if len(provs) >= 3:
        res.nontrivial_case(m["src"])
    # names that only f's default values / decorators use are not names of f
    for name in sorted(definition_time_only_names(m["src"])):
        if any(sym.get_name() == name for sym in tab.get_symbols()):
            continue
        res.evaluations += 1
        res.deciding += 1
        err = None
        try:
            prb = probing(f"f > {name}", env=ns)
            prb.__enter__()
            prb.__exit__(None, None, None)
        except Exception as e:
            err = e
        if not isinstance(err, SelectorError):
            res.violation(dict(case_base, name=name), {"what": f"'f > {name}' was accepted although {name} only occurs in f's default values / decorators (evaluated when f is defined, not a name f reads)", "got": repr(err)[:200]})
        res.count("definition_time_only_names_refused")
    # names occurring nowhere
    for k in range(3):
        fresh = f"zq_{k}_nowhere"
        assert fresh not in m["src"]
        for sel, what in ((f"f > {fresh}", "fresh variable"), (f"f({fresh}) > p", "fresh context variable"), (f"f > #foo{k}", "unknown meta-variable"), (f"f > #value.z{k}", "unknown (dotted) meta-variable"), (f"f(#enter.q{k}) > #exit", "unknown (dotted) meta-variable as context"), (f"f > #exits{k}", "unknown meta-variable extending a valid one"), (f"f > #loop_zq{k}", "loop meta-variable of a name that is no loop variable"), (f"f > #endloop_zq{k}", "loop meta-variable of a name that is no loop variable"), (f"nosuch_fn_{k} > x", "unresolvable function"), (f"f > nosuch_fn_{k} > x", "unresolvable inner function")):
            if sel.endswith("> p") and "p" not in m["params"]:
                continue
            res.evaluations += 1
            res.deciding += 1
            n0 = icount.n
            err = None
            try:
                prb = probing(sel, env=ns)
                prb.__enter__()
                prb.__exit__(None, None, None)
            except Exception as e:
                err = e
            case = dict(case_base, selector=sel)
            if not isinstance(err, SelectorError):
                res.violation(case, {"what": f"{what}: expected SelectorError", "got": repr(err)[:300]})
            probs = clean_state(f, orig)
            if probs or icount.n != n0:
                res.violation(case, {"what": "refused activation left traces / ran something", "state": probs, "interact_calls": icount.n - n0})
                return
            res.count("refused_selectorerror")
    cur = HandlerCollection.current.get()
    if cur is not None and cur.handler_pairs:
        res.violation(case_base, "handlers left installed after refused activations")
        HandlerCollection.current.set(None)


# Hand-written shapes that the program generator does not produce, checked with the same symtable
# oracle: a function using its own name, parameters / declared globals rebound by except, import and
# class statements, locals sharing their name with the parameter of a nested function or lambda.
SHAPES = [
    "def f(n):\n    if n <= 1:\n        return 1\n    return n * f(n - 1)\n",
    "def f(err):\n    try:\n        return 1 / err\n    except ZeroDivisionError as err:\n        return str(err)\n",
    "def f(os):\n    import os\n    return os\n",
    "def f(path):\n    from os import path\n    return path\n",
    "def f(K):\n    class K:\n        pass\n    return K\n",
    "def f():\n    global json\n    import json\n    return json\n",
    "def f(x):\n    global E\n    try:\n        return 1 / x\n    except ZeroDivisionError as E:\n        return 0\n",
    "def f():\n    global K\n    class K:\n        pass\n    return K\n",
    "def f():\n    global F\n    def F():\n        return 1\n    return F\n",
    "def f(w):\n    t = w\n    k = (lambda t: t)(w)\n    return t + k\n",
    "def f(w):\n    t = w\n    def g(t, u=w):\n        return t\n    return g(t)\n",
    "def f(w):\n    t = [w for w in range(3)]\n    return t, w\n",
    "def f(w):\n    match w:\n        case [a, *b]:\n            return a\n        case {'k': c, **d}:\n            return c\n        case str() as s:\n            return s\n    return None\n",
    "def f(w):\n    async def co(z):\n        return z + w\n    return co\n",
    "def f(w):\n    g = lambda: (y := w)\n    y = 0\n    return g() + y\n",
    "H = int\ndef f(w):\n    def inner(v: H) -> H:\n        return v\n    return inner(w)\n",
    "def factory():\n    cv = 5\n    def f(p=cv):\n        q = p + 1\n        return q\n    return f\nf = factory()\n",
    # the outermost iterable of a comprehension is read by the function itself, whatever the
    # comprehension's own variable is called
    "x = [1, 2]\ndef f():\n    return [x for x in x]\n",
    "x = [1, 2]\ndef f(w):\n    return {x: w for x in x}, {w for w in x}\n",
    "x = [1, 2]\ndef f(w):\n    return list(x + w for x in x)\n",
    "def f(rows):\n    flat = [c for row in rows for c in row if row]\n    return flat\n",
    "x = [[1], [2]]\ndef f(w):\n    return [x for x in x for x in x]\n",
    "def deco(fn):\n    return fn\nK = 3\n@deco\ndef f(p=K):\n    café = p + 1\n    return café\n",
]


def check_shapes(scratch, res, icount):
    for k, src in enumerate(SHAPES):
        mod = prorun.load_src(src, scratch, f"c10shape_{k}")
        tab = f_table(src)
        params = [s_.get_name() for s_ in tab.get_symbols() if s_.is_parameter()]
        m = {"src": src, "params": params}
        check_program(m, mod, res, {"shape": k, "program": src}, icount)
        res.count("hand_written_shapes")


UNTOOLABLE_SRC = '''
import functools
class Cls:
    def meth(self, x):
        return x
    def __call__(self, x):
        return x
inst = Cls()
part = functools.partial(Cls.meth, inst)
lam = lambda x: x + 1
async def coro(x):
    y = x
    return y
def genfn(x):
    y = x
    yield y
genobj = genfn(1)
nosrc = eval(compile("lambda x: x", "<nowhere>", "eval"))
exec(compile("def nosrc2(x):\\n    y = x\\n    return y\\n", "<nowhere2>", "exec"))
'''
UNTOOLABLE = [
    ("len > x", "builtin function"),
    ("Cls > x", "class"),
    ("inst > x", "callable instance"),
    ("part > x", "functools.partial"),
    ("str.join > x", "method descriptor"),
    ("lam > x", "lambda"),
    ("coro > y", "async def"),
    ("genobj > y", "generator object"),
    ("nosrc > x", "lambda without source"),
    ("nosrc2 > y", "function without source"),
    ("Cls.meth(x) > len > y", "builtin inside a chain"),
]


def check_untoolable(scratch, res, icount, tag):
    import builtins

    from ptera import probing

    mod = prorun.load_src(UNTOOLABLE_SRC, scratch, f"c10u_{tag}")
    ns = dict(vars(builtins))
    ns.update(vars(mod))
    for sel, what in UNTOOLABLE:
        res.evaluations += 1
        res.deciding += 1
        n0 = icount.n
        err = None
        try:
            prb = probing(sel, env=ns)
            prb.__enter__()
            prb.__exit__(None, None, None)
        except BaseException as e:
            err = e
        case = {"untoolable": sel, "kind": what}
        if not isinstance(err, TypeError):
            res.violation(case, {"what": f"{what}: expected TypeError", "got": f"{type(err).__name__}: {str(err)[:200]}"})
        for nm in ("lam", "coro", "nosrc", "nosrc2"):
            fn = ns[nm]
            st = getattr(fn, "__ptera_stack__", None)
            if st is not None and st.instrument_count != 0:
                res.violation(case, {"what": f"refused activation left instrument_count={st.instrument_count} on {nm}"})
                return
        st = getattr(ns["Cls"].meth, "__ptera_stack__", None)
        if st is not None and st.instrument_count != 0:
            res.violation(case, {"what": "refused chain left Cls.meth instrumented", "count": st.instrument_count})
            return
        res.count("refused_typeerror")
    try:
        ns["genobj"].close()
    except Exception:
        pass


def run_shard(spec):
    res = ShardResult()
    icount = InteractCount()
    s0, cnt = spec["range"]
    check_untoolable(spec["scratch"], res, icount, s0)
    if s0 == 0:
        check_shapes(spec["scratch"], res, icount)
    for i in range(s0, s0 + cnt):
        rnd = rng_for("C10", spec["seed"], i)
        opts = {"max_stmts": spec.get("max_stmts", 8)}
        m = progen.build_module(rnd, opts)
        mod = prorun.load_src(m["src"], spec["scratch"], f"c10m_{i % 50}")
        case_base = {"idx": i, "seed": spec["seed"], "max_stmts": opts["max_stmts"], "program": streams.fn_source(m)[:2500]}
        try:
            check_program(m, mod, res, case_base, icount)
        except Exception as e:
            res.violation(case_base, "harness exception: " + common.fmt_exc(e))
        if i % 300 == 0:
            res.sample({"program": streams.fn_source(m)[:800]})
    return res.as_dict()


def plan(tier, seed, known):
    if tier == "quick":
        n, shards, ms = 1600, 16, 8
    else:
        n, shards, ms = 40000, 48, 12
    return [{"range": [s, c], "max_stmts": ms} for s, c in common.split_range(n, shards)]


def replay(case):
    res = ShardResult()
    d = common.scratch_dir("C10r")
    icount = InteractCount()
    if "untoolable" in case:
        check_untoolable(d, res, icount, "r")
        return res.violations
    rnd = rng_for("C10", case["seed"], case["idx"])
    m = progen.build_module(rnd, {"max_stmts": case.get("max_stmts", 8)})
    print(streams.fn_source(m))
    mod = prorun.load_src(m["src"], d, "c10r")
    check_program(m, mod, res, {"idx": case["idx"], "seed": case["seed"]}, icount)
    return res.violations
