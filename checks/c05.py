"""C05 - probes deliver exactly-once while active and leave no trace once deactivated."""

import collections
import importlib.util
import os

from vlib import calltree as CT, common
from vlib.common import ShardResult, rng_for

PROPERTY = "C05"
LEVEL = "exploration"
RULE = (
    "A history = a sequence (<= 12 quick / <= 20 thorough) of operations over a universe of 8 probe specs on a shared "
    "family of 3 mutually calling functions: activate / deactivate a global probe (any order), enter / leave a "
    "with-probing block (normally or with an exception), enter / leave a raw autotool+BaseOverlay block, call the "
    "family on a random call tree, attempt an activation that must be refused (unknown variable, untoolable object, "
    "second selector bad).  Specs overlap on functions and variables: immediate, total, overridable-but-declining, "
    "generic ($x), multi-selector, total with a subscriber that raises during delivery.  After EVERY step the monitors check: each active probe's accumulated stream == "
    "reference stream for the calls made while it was active (exactly-once), inactive probes received nothing more; "
    "per function instrument_count / capture counters == shadow computed from the active set, installed code object is "
    "the original iff no active probe selects the function (else the variant for exactly the shadow's capture set); "
    "HandlerCollection.current holds exactly the active handlers; ptera.probe.global_probes == active set.  At the end "
    "everything is deactivated and a fresh probe per function must see a clean stream.  Enumerated part: all histories "
    "of length <= 5 (quick) / 6 (thorough) over a 3-probe universe with a fixed call.  non-trivial = history with >= 1 "
    "call while >= 1 probe active and >= 1 deactivation; distinct = distinct op sequences."
)
ASSUMPTIONS = [
    "Expected streams come from vlib/calltree.py's reference matchers (validated independently by C03/C07) over the program's own log.",
    "with-blocks nest among themselves by construction (Python enforces this); global probes interleave freely with them.",
    "A with-block is only left while it is the innermost open block; global probes are (de)activated at top level, not from inside a probed call.",
    "Overridable probes in the universe always decline (override returns ABSENT), so they must not change any result.",
]
MECHANISMS = {
    "non-lifo-global-deactivation": "deactivating global probes / overlays in a non-LIFO order: overlay exit is a ContextVar token reset, so it drops younger handlers or re-installs older ones",
    "refused-activation-leaves-tooling": "an activation refused by verify()/TypeError has already pushed its tooling: the function stays on instrumented code with a non-zero instrument_count",
}
MIN_DECIDING = {"quick": 5000, "thorough": 100000}
SHARD_TIMEOUT = {"quick": 900, "thorough": 7200}

NF = 3


def universe(rnd):
    """7 probe specs: (kind, [selector descr ...]).  A selector descr = (sel, fpath, fvar) or (sel, None, None)."""
    specs = []
    # fixed overlapping core
    specs.append(("imm", [(["call", 0, ["q"], []], [], "a0")]))  # wait: focus must be in caps
    specs[-1] = ("imm", [(["call", 0, ["q", "a0"], []], [], "a0")])
    specs.append(("imm", [(["call", 0, ["a0"], [["call", 1, ["b1", "v"], []]]], [0], "v")]))
    specs.append(("total", [(["call", 0, ["a0"], [["call", 1, ["a1"], []]]], None, None)]))
    specs.append(("decline", [(["call", 1, ["a1"], []], [], "a1")]))
    specs.append(("multi", [(["call", 2, ["v"], []], [], "v"), (["call", 0, ["b0"], []], [], "b0")]))
    # one probe holding the SAME (interned) selector twice, spelled differently: two handlers on one
    # selector object, each of which delivers (and each of which must be removed at deactivation)
    specs.append(("multi-dup", [(["call", 1, ["b1", "v"], []], [], "v"), (["call", 1, ["b1", "v"], []], [], "v")]))
    # a selector that names the same context variable twice (its capture tuple holds b1 twice)
    specs.append(("imm", [(["call", 1, ["b1", "b1", "v"], []], [], "v")]))
    # a total probe whose subscriber raises while its record is being delivered (at the exit of
    # the outermost matched call): the exception must not disturb anything else
    specs.append(("total-raising", [(["call", rnd.randrange(NF), ["v"], []], None, None)]))
    # two random ones
    for _ in range(2):
        sel = CT.rand_sel(rnd, NF, rnd.randint(0, 2))
        if rnd.random() < 0.25:
            if not CT.all_names(sel):
                sel[2].append(CT.fvars(sel[1])[0])
            specs.append(("total", [(sel, None, None)]))
        else:
            fpath, fvar = CT.place_focus(rnd, sel)
            specs.append(("imm", [(sel, fpath, fvar)]))
    return specs


BAD = [
    ("F0 > nosuchvar", "SelectorError"),
    ("F0(a0) > F1 > nosuch2", "SelectorError"),
    ("blt_len > x", "TypeError"),
    ("F1(a1) > blt_len > x", "TypeError"),
    ("F0 > #nonsense", "SelectorError"),
]
BAD_MULTI = [(["F2 > v", "F0 > nosuchvar"], "SelectorError")]


class World:
    def __init__(self, ns, specs):
        from ptera.overlay import HandlerCollection
        from ptera import probe as probe_mod

        self.ns = ns
        self.specs = specs
        self.HC = HandlerCollection
        self.probe_mod = probe_mod
        self.fns = [ns[f"F{i}"] for i in range(NF)]
        self.orig = {fn: fn.__code__ for fn in self.fns}
        self.active = []  # entries: dict(kind, spec, obj, out, expected, mode)
        self.withstack = []
        self.dead = []  # deactivated entries (must stay silent)
        self.base_current = HandlerCollection.current.get()
        from ptera import Overlay

        self.shared_overlay = Overlay()

    # -- activation ---------------------------------------------------------
    def make_probe(self, si):
        from ptera import probing
        from ptera.utils import ABSENT

        kind, sels = self.specs[si]
        texts = [CT.render(s, fp, fv, chain=(kind == "multi-dup" and j == 1)) for j, (s, fp, fv) in enumerate(sels)]
        out = []
        if kind == "decline":
            prb = probing(*texts, env=self.ns, overridable=True)
            prb.override(lambda d, out=out: (out.append(("imm", dict(d))), ABSENT)[1])
        elif kind == "total-raising":
            prb = probing(*texts, env=self.ns, raw=True)

            def sub(d, out=out):
                out.append(("total", {k: list(c.values) for k, c in d.items()}))
                raise ValueError("subscriber failure")

            prb.subscribe(sub)
        elif kind == "total":
            prb = probing(*texts, env=self.ns, raw=True)
            prb.subscribe(lambda d, out=out: out.append(("total", {k: list(c.values) for k, c in d.items()})))
        else:
            prb = probing(*texts, env=self.ns)
            prb.subscribe(lambda d, out=out: out.append(("imm", dict(d))))
        return {"si": si, "kind": kind, "sels": sels, "texts": texts, "obj": prb, "out": out, "expected": [], "handlers": list(prb._ol.handlers), "selectors": list(prb._selectors)}

    def make_overlay(self, si):
        """Raw autotool + BaseOverlay block for an immediate single-selector spec."""
        from ptera.interpret import Immediate, Total
        from ptera.overlay import BaseOverlay, autotool
        from ptera.selector import select

        kind, sels = self.specs[si]
        (s, fp, fv) = sels[0]
        text = CT.render(s, fp, fv)
        out = []
        selobj = select(text, env=self.ns)
        if kind == "total":
            h = Total(selobj, close=lambda d, out=out: out.append(("total", {k: list(c.values) for k, c in d.items()})))
        else:
            h = Immediate(selobj, trigger=lambda d, out=out: out.append(("imm", {k: c.value for k, c in d.items()})))
        ol = BaseOverlay(h)
        entry = {"si": si, "kind": "total" if kind == "total" else "imm", "sels": [sels[0]], "texts": [text], "out": out, "expected": [], "handlers": [h], "selectors": [selobj], "overlay": True}
        self.noverlays = getattr(self, "noverlays", 0) + 1
        HC = self.HC

        if kind != "total" and self.noverlays % 2 == 0:
            # a rule derived from a long-lived Overlay instance (ov.tapping forks ov): when the block
            # is left nothing of it may stay in ov, which is entered again around later calls
            cm = self.shared_overlay.tapping(selobj)

            class Block:
                def enter(b):
                    autotool(selobj)
                    cur = HC.current.get()
                    before = {id(a) for _, a in (cur.handler_pairs if cur else [])}
                    entry["tap"] = cm.__enter__()
                    cur = HC.current.get()
                    entry["handlers"][:] = [a for _, a in cur.handler_pairs if id(a) not in before]

                def exit(b, *exc):
                    try:
                        cm.__exit__(*exc)
                    finally:
                        autotool(selobj, undo=True)

        else:

            class Block:
                def enter(b):
                    b.tooled = autotool(selobj)
                    ol.__enter__()

                def exit(b, *exc):
                    ol.__exit__(*exc)
                    autotool(selobj, undo=True)

        entry["obj"] = Block()
        return entry

    # -- shadow -------------------------------------------------------------
    def shadow(self):
        """Expected (count, Counter of capture elements) per function from the active set."""
        from ptera.selector import Call

        cnt = collections.Counter()
        caps = {fn: collections.Counter() for fn in self.fns}

        def walk(sel):
            fn = sel.element.name
            if fn in caps:
                cnt[fn] += 1
                for c in sel.captures:
                    caps[fn][c] += 1
            for ch in sel.children:
                walk(ch)

        for e in self.active:
            for sel in e["selectors"]:
                if isinstance(sel, Call):
                    walk(sel)
        return cnt, caps

    def check_invariants(self, where):
        problems = []
        cnt, caps = self.shadow()
        for i, fn in enumerate(self.fns):
            st = getattr(fn, "__ptera_stack__", None)
            ic = st.instrument_count if st else 0
            if ic != cnt[fn]:
                problems.append(f"F{i}: instrument_count={ic}, shadow expects {cnt[fn]}")
            if st:
                real = {k: v for k, v in st.captures.items() if v != 0}
                exp = {k: v for k, v in caps[fn].items() if v != 0}
                if real != exp:
                    problems.append(f"F{i}: capture counters {real} != shadow {exp}")
            if cnt[fn] == 0:
                if fn.__code__ is not self.orig[fn]:
                    problems.append(f"F{i}: no active probe selects it but it is not running its original code object")
            else:
                if fn.__code__ is self.orig[fn]:
                    problems.append(f"F{i}: selected by {cnt[fn]} active probe(s) but running its original code")
                elif st:
                    key = frozenset(k for k, v in caps[fn].items() if v > 0)
                    variant = st.tset.transforms.get(key)
                    if variant is None or variant[1] is not fn.__code__:
                        problems.append(f"F{i}: installed code is not the variant for the shadow's capture set")
        cur = self.HC.current.get()
        real_h = sorted(id(acc) for (_, acc) in (cur.handler_pairs if cur else []))
        exp_h = sorted(id(h) for e in self.active for h in e["handlers"])
        if real_h != exp_h:
            problems.append(f"HandlerCollection.current holds {len(real_h)} handler(s), active set has {len(exp_h)} (identity mismatch)")
        gp = set(self.probe_mod.global_probes)
        exp_gp = {e["obj"] for e in self.active if not e.get("overlay")}
        if gp != exp_gp:
            problems.append(f"global_probes has {len(gp)} entries, expected {len(exp_gp)}")
        for e in self.active + self.dead:
            if "tap" in e:
                e["out"][:] = [("imm", dict(d)) for d in e["tap"]]
            if canon(e["out"]) != canon(e["expected"]):
                problems.append({"probe": e["texts"], "kind": e["kind"], "active": e in self.active, "expected": canon(e["expected"])[-6:], "got": canon(e["out"])[-6:], "n_expected": len(e["expected"]), "n_got": len(e["out"])})
        return [{"after": where, "problem": p} for p in problems]

    # -- calls --------------------------------------------------------------
    def call(self, tree):
        del self.ns["LOG"][:]
        try:
            self.ns["DISPATCH"][tree[0]](tree)
            raised = None
        except ValueError:
            raised = "scripted"
        L = CT.Log(list(self.ns["LOG"]))
        for e in self.active:
            evs = []
            for (s, fp, fv) in e["sels"]:
                if fp is None:
                    for _, rec in CT.reference_total(L, s):
                        evs.append((max(max(v) for v in rec.values()), ("total", rec)))
                else:
                    exp, order = CT.reference_immediate(L, s, fp, fv)
                    for val, lst in exp.items():
                        for ev in lst:
                            evs.append((val, ("imm", ev)))
            if len(e["sels"]) > 1 or e["kind"] not in ("total", "total-raising"):
                evs.sort(key=lambda x: x[0])
            e.setdefault("synced", len(e["expected"]))
            e["expected"].extend(ev for _, ev in evs)
        # (a subscriber that raises at an activation's exit must not take away the records that
        # other total probes get at the same exit: every stream is asserted)
        return raised


def canon(events):
    """Order-insensitive within one focus binding: events of kind imm are keyed by their max value."""
    out = []
    for kind, d in events:
        if kind == "imm":
            out.append((max(d.values()), "imm", tuple(sorted(d.items()))))
        else:
            out.append((0, "total", tuple(sorted((k, tuple(v)) for k, v in d.items()))))
    # stable: sort only imm events sharing the same key
    res, i = [], 0
    while i < len(out):
        j = i
        while j < len(out) and out[j][1] == "imm" and out[i][1] == "imm" and out[j][0] == out[i][0]:
            j += 1
        if j == i:
            res.append(out[i])
            i += 1
        else:
            res.extend(sorted(out[i:j]))
            i = j
    return res


def gen_history(rnd, nspecs, length):
    """Abstract op list; validity is resolved at execution time against the world state."""
    ops = []
    for _ in range(length):
        r = rnd.random()
        if r < 0.18:
            ops.append(["gact", rnd.randrange(nspecs)])
        elif r < 0.33:
            ops.append(["gdeact", rnd.randrange(8)])
        elif r < 0.45:
            ops.append(["enter", rnd.randrange(nspecs)])
        elif r < 0.50:
            ops.append(["oenter", rnd.randrange(nspecs)])
        elif r < 0.60:
            ops.append(["leave"])
        elif r < 0.64:
            ops.append(["leave_exc"])
        elif r < 0.70:
            ops.append(["bad", rnd.randrange(len(BAD) + len(BAD_MULTI))])
        else:
            ops.append(["call", CT.rand_tree(rnd, NF, [rnd.randint(1, 7)], p_raise=0.1)])
    return ops


def run_history(ns, specs, ops, res, case, known):
    """Execute; returns list of problems (each a dict)."""
    from ptera import probing

    w = World(ns, specs)
    problems = []
    trace = []
    ncalls_active = 0
    ndeact = 0
    nonlifo = False
    refused_seen = False

    def deactivate(e, exc=False):
        nonlocal ndeact, nonlifo
        if w.active and w.active[-1] is not e:
            nonlifo = True
        if e.get("overlay"):
            if exc:
                e["obj"].exit(ValueError, ValueError("boom"), None)
            else:
                e["obj"].exit(None, None, None)
        elif exc:
            e["obj"].__exit__(ValueError, ValueError("boom"), None)
        else:
            e["obj"].__exit__(None, None, None)
        w.active.remove(e)
        w.dead.append(e)
        ndeact += 1

    for step, op in enumerate(ops):
        kind = op[0]
        try:
            if kind == "gact":
                e = w.make_probe(op[1])
                e["mode"] = "global"
                e["obj"].activate()
                w.active.append(e)
            elif kind == "gdeact":
                gl = [e for e in w.active if e["mode"] == "global"]
                if not gl:
                    continue
                deactivate(gl[op[1] % len(gl)])
            elif kind in ("enter", "oenter"):
                if kind == "oenter" and (len(specs[op[1]][1]) > 1 or specs[op[1]][0] in ("decline", "total-raising")):
                    continue
                e = w.make_probe(op[1]) if kind == "enter" else w.make_overlay(op[1])
                e["mode"] = "with"
                if kind == "enter":
                    e["obj"].__enter__()
                else:
                    e["obj"].enter()
                w.active.append(e)
                w.withstack.append(e)
            elif kind in ("leave", "leave_exc"):
                if not w.withstack:
                    continue
                e = w.withstack.pop()
                deactivate(e, exc=(kind == "leave_exc"))
            elif kind == "bad":
                i = op[1]
                if i < len(BAD):
                    texts, want = [BAD[i][0]], BAD[i][1]
                else:
                    texts, want = BAD_MULTI[i - len(BAD)]
                got = None
                try:
                    prb = probing(*texts, env=ns)
                    prb.__enter__()
                except Exception as ex:
                    got = type(ex).__name__
                if got is None:
                    problems.append({"after": f"step {step} {op}", "problem": f"activation of {texts} should be refused ({want}), but it succeeded"})
                refused_seen = True
            elif kind == "call":
                if w.active:
                    ncalls_active += 1
                if step % 3 == 0:
                    # the long-lived (empty) overlay is entered around the call
                    with w.shared_overlay:
                        w.call(op[1])
                else:
                    w.call(op[1])
        except Exception as ex:
            problems.append({"after": f"step {step} {op}", "problem": "exception: " + common.fmt_exc(ex)})
            break
        trace.append(op)
        res.deciding += 1
        ps = w.check_invariants(f"step {step} {op}")
        if ps:
            problems.extend(ps)
            break
    # wind down: leave blocks innermost first, then globals in activation order (non-LIFO on purpose)
    if not problems:
        try:
            while w.withstack:
                deactivate(w.withstack.pop())
            for e in [e for e in w.active]:
                deactivate(e)
            ps = w.check_invariants("final deactivation of everything")
            problems.extend(ps)
            if not ps:
                # a later probe on each function starts from a clean state
                for i in range(NF):
                    sel = ["call", i, [f"a{i}"], []]
                    out = []
                    with probing(CT.render(sel, [], f"a{i}"), env=ns) as p:
                        p.subscribe(lambda d: out.append(dict(d)))
                        del ns["LOG"][:]
                        tree = [i, [[(i + 1) % NF, [], 0]], 0]
                        ns["DISPATCH"][i](tree)
                    exp, order = CT.reference_immediate(list(ns["LOG"]), sel, [], f"a{i}")
                    res.deciding += 1
                    if [tuple(sorted(d.items())) for d in out] != [tuple(sorted(ev.items())) for v in order for ev in exp[v]]:
                        problems.append({"after": "fresh probe after history", "problem": f"F{i}: fresh probe saw {out}, reference {dict(exp)}"})
                problems.extend(w.check_invariants("after fresh probes"))
        except Exception as ex:
            problems.append({"after": "wind-down", "problem": "exception: " + common.fmt_exc(ex)})
    # leave the interpreter state usable for the next history whatever happened
    cleanup(w)
    info = {"calls_active": ncalls_active, "deactivations": ndeact, "nonlifo": nonlifo, "refused": refused_seen}
    return problems, info


def cleanup(w):
    w.HC.current.set(w.base_current)
    w.probe_mod.global_probes.clear()


def classify(problems, info, ops):
    """Map a failing history to a known mechanism, or None."""
    had_bad = any(op[0] == "bad" for op in ops)
    texts = " ".join(str(p["problem"]) for p in problems)
    if had_bad and ("instrument_count" in texts or "original code" in texts or "capture counters" in texts) and "HandlerCollection" not in texts:
        return "refused-activation-leaves-tooling"
    return None


def fresh_family(scratch, tag):
    ns = CT.load_family(scratch, f"c05fam_{tag}", NF)
    ns["blt_len"] = len
    return ns


def check_inplace_after_probe(scratch, res):
    """A function that was probed once (and keeps an idle variant stack) is then tooled in place: probes
    on it must leave the full tooling alone - an overlay on another variable keeps receiving its events
    while they are active, and the function is still fully tooled afterwards."""
    from ptera import Overlay, probing, tooled
    from ptera.utils import is_tooled

    src = "def f(x):\n    a = x + 1\n    b = a * 2\n    return b\n"
    path = os.path.join(scratch, "c05inplace.py")
    with open(path, "w") as fh:
        fh.write(src)
    sp = importlib.util.spec_from_file_location("c05inplace", path)
    mod = importlib.util.module_from_spec(sp)
    sp.loader.exec_module(mod)
    ns = vars(mod)
    res.evaluations += 1
    res.deciding += 1
    try:
        with probing("f > a", env=ns):
            mod.f(0)
        tooled.inplace(mod.f)
        from ptera.selector import select

        with Overlay.tapping(select("f > b", env=ns)) as seen:
            mod.f(1)
            with probing("f > a", env=ns) as p:
                got = p.accum()
                mod.f(2)
            mod.f(3)
        ok = [d["b"] for d in seen] == [4, 6, 8] and got == [{"a": 3}] and is_tooled(mod.f)
        if not ok:
            res.violation({"inplace_after_probe": True}, {"what": "probe on a function tooled in place after an earlier probe disturbed the full tooling", "overlay_saw_b": [d["b"] for d in seen], "probe_saw": got, "still_tooled": is_tooled(mod.f)})
    except Exception as e:
        res.violation({"inplace_after_probe": True}, "exception: " + common.fmt_exc(e))
    res.count("inplace_after_probe_checks")


def run_shard(spec):
    res = ShardResult()
    known = set(spec.get("known", []))
    scratch = spec["scratch"]
    maxlen = spec["maxlen"]
    if spec["part"] != "enum" and spec["range"][0] == 0:
        check_inplace_after_probe(scratch, res)
    if spec["part"] == "enum":
        cases = list(enum_histories(spec["enum_len"]))
        cases = [c for i, c in enumerate(cases) if i % spec["nshards"] == spec["shard"]]
        it = ((("enum", i), None, ops) for i, ops in enumerate(cases))
    else:
        s0, cnt = spec["range"]
        it = ((("rand", i), rng_for("C05", spec["seed"], i), None) for i in range(s0, s0 + cnt))
    ns = None
    n = 0
    for key, rnd, ops in it:
        if ns is None or n % 25 == 0:
            ns = fresh_family(scratch, f"{key[0]}{key[1]}")
        n += 1
        if rnd is not None:
            specs = universe(rnd)
            ops = gen_history(rnd, len(specs), rnd.randint(3, maxlen))
        else:
            specs = ENUM_SPECS
        if "non-lifo-global-deactivation" in known and not spec.get("finding") == "non-lifo-global-deactivation":
            ops = make_lifo(ops)
        if "refused-activation-leaves-tooling" in known and not spec.get("finding") == "refused-activation-leaves-tooling":
            ops = [op for op in ops if op[0] != "bad"]
        case = {"specs": specs, "ops": ops, "key": list(key)}
        res.evaluations += 1
        problems, info = run_history(ns, specs, ops, res, case, known)
        if problems:
            ns = None  # do not reuse functions whose stacks may be corrupted
            mech = spec.get("finding")
            if mech and mech in known and classify_finding(mech, problems, info, ops):
                res.finding(mech, {"case": case, "problems": problems[:3]})
            else:
                res.violation(case, problems[:4])
        if info["calls_active"] and info["deactivations"]:
            res.nontrivial_case(ops)
        if info["nonlifo"]:
            res.count("histories_nonlifo")
        if info["refused"]:
            res.count("histories_with_refused_activation")
        res.count("steps", len(ops))
        if n % 300 == 1:
            res.sample({"ops": ops[:8], "specs": [[k, [CT.render(*s) for s in sels]] for k, sels in specs]})
    return res.as_dict()


def make_lifo(ops):
    """Rewrite gdeact ops so that global probes are always deactivated newest-first and only
    when no with-block opened after them is still open (main stream when the non-LIFO
    mechanism is a listed known finding)."""
    out = []
    stack = []  # 'g' / 'w'
    for op in ops:
        if op[0] == "gact":
            stack.append("g")
            out.append(op)
        elif op[0] in ("enter", "oenter"):
            stack.append("w")
            out.append(op)
        elif op[0] in ("leave", "leave_exc"):
            if stack and stack[-1] == "w":
                stack.pop()
                out.append(op)
        elif op[0] == "gdeact":
            if stack and stack[-1] == "g":
                stack.pop()
                out.append(["gdeact", -1])  # -1 % n == n-1: the newest global probe
        else:
            out.append(op)
    return out


def classify_finding(mech, problems, info, ops):
    texts = " ".join(str(p["problem"]) for p in problems)
    if mech == "non-lifo-global-deactivation":
        return info["nonlifo"] and ("HandlerCollection.current" in texts or "expected" in texts or "token" in texts.lower())
    if mech == "refused-activation-leaves-tooling":
        return any(op[0] == "bad" for op in ops) and ("instrument_count" in texts or "original code" in texts or "capture counters" in texts or "variant" in texts)
    return False


ENUM_SPECS = [
    ("imm", [(["call", 0, ["q", "a0"], []], [], "a0")]),
    ("imm", [(["call", 0, ["a0"], [["call", 1, ["v"], []]]], [0], "v")]),
    ("total", [(["call", 1, ["a1", "b1"], []], None, None)]),
]
ENUM_TREE = [0, [[1, [[2, [], 0]], 0], [1, [], 1]], 0]


def enum_histories(length):
    import itertools

    alphabet = [["gact", 0], ["gact", 1], ["gact", 2], ["gdeact", 0], ["gdeact", 1], ["enter", 0], ["enter", 2], ["leave"], ["leave_exc"], ["call", ENUM_TREE], ["bad", 0]]
    for n in range(1, length + 1):
        for seq in itertools.product(alphabet, repeat=n):
            # prune sequences that start with an op that cannot apply
            if seq[0][0] in ("gdeact", "leave", "leave_exc"):
                continue
            if not any(op[0] == "call" for op in seq):
                continue
            yield [list(op) for op in seq]


def plan(tier, seed, known):
    specs = []
    if tier == "quick":
        elen, esh, n, shards, maxlen = 4, 4, 3000, 12, 12
    else:
        elen, esh, n, shards, maxlen = 5, 16, 60000, 32, 20
    for sh in range(esh):
        specs.append({"part": "enum", "enum_len": elen, "shard": sh, "nshards": esh, "maxlen": maxlen})
    for s, c in common.split_range(n, shards):
        specs.append({"part": "rand", "range": [s, c], "maxlen": maxlen})
    for mech in known:
        specs.append({"part": "rand", "range": [10**6, 150], "maxlen": 8, "finding": mech})
    return specs


def replay(case):
    res = ShardResult()
    d = common.scratch_dir("C05r")
    ns = fresh_family(d, "replay")
    specs = [(k, [tuple(s) for s in sels]) for k, sels in case["specs"]]
    for op in case["ops"]:
        print("  op:", op)
    problems, info = run_history(ns, specs, case["ops"], res, case, set())
    for p in problems:
        print("PROBLEM:", p)
    if problems:
        res.violation(case, problems[:4])
    return res.violations
