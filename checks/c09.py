"""C09 - a suspended generator does not leak its call-path context to its caller."""

import gc
import importlib.util
import os

from vlib import common
from vlib.common import ShardResult, rng_for

PROPERTY = "C09"
LEVEL = "exploration"
RULE = (
    "A history = sequence (<= 10 quick / <= 16 thorough) of driver operations {enter overlay k, leave overlay, create "
    "generator, next, send, throw (answered by a value inside a delegation or ending the generator), close, drop+gc, call plain g from the driver, and the atomic compounds exhaust / "
    "start-and-close / create-and-drop / zip-two-generators} over two instrumented generators whose bodies call g, "
    "run with the driver at top level or inside an instrumented outer() with overlays entered before it.  After "
    "every step the monitor compares HandlerCollection.current (identity of accumulator objects) with a model in "
    "which generator operations never change the driver's handlers; for every driver call of g the events received "
    "by each installed handler are compared with: 'g > a' one event, 'outer > g > a' one event iff the driver is "
    "inside outer and the overlay was entered outside it, 'gen > g > a' / 'gen2 > g > a' / 'gen(i) > g > a' none.  "
    "non-trivial = history with >= 1 generator operation and >= 1 driver call or overlay change afterwards; distinct = "
    "distinct (placement, op sequence)."
)
ASSUMPTIONS = [
    "Events produced by the generators' own inner calls of g are not asserted (the statement is about the caller's code); driver calls are told apart by argument values >= 1000.",
    "Overlays are entered and left by the driver in LIFO order (with-block discipline).",
    "Main stream (while the suspension mechanism is a listed known finding) only uses generator operations that leave no generator suspended across a driver observation: exhaust, start-and-close, create-and-drop, never-started generators.",
]
MECHANISMS = {
    "suspended-generator-context-leak": "an instrumented generator suspended at a yield keeps its interior handler collection installed in the caller's context (the whole body incl. yields sits in one `with proceed(...)` whose ContextVar.set persists across the yield) and restores a stale collection by token reset when it finishes: the driver's own g() fires 'gen > g > a', and finishing a generator after its overlay ended re-installs that overlay's handlers",
}
MIN_DECIDING = {"quick": 4000, "thorough": 80000}
SHARD_TIMEOUT = {"quick": 900, "thorough": 7200}

SRC = '''
def g(x):
    a = x + 1
    return a

class PlainIt:
    def __init__(self):
        self.n = 0
    def __iter__(self):
        return self
    def __next__(self):
        self.n += 1
        if self.n > 2:
            raise StopIteration
        return 1000 * self.n
    def send(self, value):
        return self.__next__()

def gen(n):
    for i in range(n):
        y = g(i)
        got = yield y
    # delegation to a plain iterator (it has neither throw() nor close())
    yield from PlainIt()

def sub(n):
    for k in range(n):
        w2 = g(k * 100)
        try:
            yield w2
        except ValueError:
            # the delegated-to generator answers a thrown exception with another value
            yield w2 + 7

def gen2(n):
    tot = 0
    for j in range(n):
        w = g(j * 10)
        # a yield inside an augmented assignment (its target is usually not instrumented)
        tot += (yield w) or 0
    # delegation: the values of sub() travel out through gen2's `yield from`
    yield from sub(2)

def outer(cb):
    z = 1
    r = cb()
    return r
'''

SELECTORS = ["g > a", "gen > g > a", "gen2 > g > a", "outer > g > a", "gen(i) > g > a", "gen(!y)", "gen2 > w"]
# expectation for a driver call of g, by selector index: 1 event / 0 events / 'outer'
EXPECT = {0: "one", 1: "none", 2: "none", 3: "outer", 4: "none", 5: "none", 6: "none"}
SUSPENDING = {"mk", "next", "send", "close", "drop", "zip", "throw", "mk_thrown"}


def load(scratch, tag):
    name = f"c09m_{tag}"
    path = os.path.join(scratch, name + ".py")
    with open(path, "w") as f:
        f.write(SRC)
    sp = importlib.util.spec_from_file_location(name, path)
    mod = importlib.util.module_from_spec(sp)
    sp.loader.exec_module(mod)
    return vars(mod)


def gen_history(rnd, length, atomic_only):
    ops = []
    for _ in range(length):
        r = rnd.random()
        if r < 0.15:
            ops.append(["enter", rnd.randrange(len(SELECTORS))])
        elif r < 0.27:
            ops.append(["leave"])
        elif r < 0.50:
            ops.append(["call"])
        elif atomic_only:
            ops.append([rnd.choice(["exhaust", "startclose", "mkdrop", "mk_unstarted"]), rnd.choice(["gen", "gen2"]), rnd.randint(0, 3)])
        else:
            k = rnd.random()
            if k < 0.2:
                ops.append(["mk", rnd.choice(["gen", "gen2"]), rnd.randint(1, 3)])
            elif k < 0.5:
                ops.append(["next", rnd.randrange(4)])
            elif k < 0.56:
                ops.append(["send", rnd.randrange(4), rnd.randint(5, 9)])
            elif k < 0.6:
                ops.append(["throw", rnd.randrange(4)])
            elif k < 0.75:
                ops.append(["close", rnd.randrange(4)])
            elif k < 0.85:
                ops.append(["drop", rnd.randrange(4)])
            elif k < 0.9:
                ops.append(["zip", rnd.randint(1, 3), rnd.randint(1, 3)])
            elif k < 0.95:
                # a generator taken straight into its delegation and thrown into there (the
                # sub-generator answers with a value): it stays suspended for the later steps
                ops.append(["mk_thrown"])
            else:
                ops.append([rnd.choice(["exhaust", "startclose", "mkdrop"]), rnd.choice(["gen", "gen2"]), rnd.randint(0, 3)])
    return ops


def run_history(ns, placement, pre, ops, res):
    """placement: 'top' | 'outer'; pre: selector indices entered before the driver starts."""
    from ptera.interpret import Immediate
    from ptera.overlay import BaseOverlay, HandlerCollection, autotool
    from ptera.selector import select

    HC = HandlerCollection
    problems = []
    info = {"genops": 0, "observations_after_genop": 0, "suspended_seen": False}
    selobjs = [select(s, env=ns) for s in SELECTORS]
    for so in selobjs:
        autotool(so)
    base0 = HC.current.get()
    counter = [0]

    def mk_overlay(k):
        out = []
        h = Immediate(selobjs[k], trigger=lambda d, out=out: out.append({n: c.value for n, c in d.items()}))
        return {"k": k, "ol": BaseOverlay(h), "h": h, "out": out, "seen": 0, "outside_outer": None}

    def driver():
        cur = HC.current.get()
        base = [acc for _, acc in (cur.handler_pairs if cur else [])]
        stack = []  # overlays entered by the driver
        gens = []  # live generator objects (slots)
        started = set()

        def check_current(where):
            cur = HC.current.get()
            real = [id(acc) for _, acc in (cur.handler_pairs if cur else [])]
            exp = [id(a) for a in base] + [id(o["h"]) for o in stack]
            res.deciding += 1
            if real != exp:
                problems.append({"after": where, "problem": f"driver's HandlerCollection.current holds {len(real)} handler(s) {_names(cur)}, model expects {len(exp)}: base + {[SELECTORS[o['k']] for o in stack]}"})
                return False
            return True

        for step, op in enumerate(ops):
            kind = op[0]
            where = f"step {step} {op}"
            try:
                if kind == "enter":
                    o = mk_overlay(op[1])
                    o["outside_outer"] = False
                    o["ol"].__enter__()
                    stack.append(o)
                elif kind == "leave":
                    if not stack:
                        continue
                    o = stack.pop()
                    o["ol"].__exit__(None, None, None)
                elif kind == "call":
                    counter[0] += 1
                    arg = 1000 + counter[0]
                    r = ns["g"](arg)
                    res.deciding += 1
                    if r != arg + 1:
                        problems.append({"after": where, "problem": f"g({arg}) returned {r}"})
                    for o in pre_overlays + stack:
                        new = [e for e in o["out"][o["seen"]:] if e.get("a", 0) >= 1000]
                        o["seen"] = len(o["out"])
                        want = EXPECT[o["k"]]
                        if want == "outer":
                            want = "one" if (placement == "outer" and o["outside_outer"]) else "none"
                        expn = [{"a": arg + 1}] if want == "one" else []
                        if new != expn:
                            problems.append({"after": where, "problem": f"handler on {SELECTORS[o['k']]!r} received {new} for the driver's own g({arg}); expected {expn}", "suspended_generators": len([j for j, x in enumerate(gens) if x is not None and j in started])})
                    if info["genops"]:
                        info["observations_after_genop"] += 1
                elif kind == "mk":
                    gens.append(ns[op[1]](op[2]))
                    info["genops"] += 1
                elif kind in ("next", "send", "close", "drop", "throw"):
                    live = [i for i, x in enumerate(gens) if x is not None]
                    if not live:
                        continue
                    i = live[op[1] % len(live)]
                    gobj = gens[i]
                    info["genops"] += 1
                    if kind == "next":
                        try:
                            next(gobj)
                            started.add(i)
                            info["suspended_seen"] = True
                        except StopIteration:
                            gens[i] = None
                    elif kind == "send":
                        try:
                            if i in started:
                                gobj.send(op[2])
                            else:
                                next(gobj)
                                started.add(i)
                            info["suspended_seen"] = True
                        except StopIteration:
                            gens[i] = None
                    elif kind == "throw":
                        # ends the generator unless it is suspended inside sub(), which recovers
                        try:
                            if i in started:
                                gobj.throw(ValueError("thrown by the driver"))
                                info["suspended_seen"] = True
                                info["throws_answered"] = info.get("throws_answered", 0) + 1
                            else:
                                next(gobj)
                                started.add(i)
                        except (StopIteration, ValueError):
                            gens[i] = None
                    elif kind == "close":
                        gobj.close()
                        gens[i] = None
                    else:
                        gens[i] = None
                        del gobj
                        gc.collect()
                elif kind == "zip":
                    info["genops"] += 1
                    for _pair in zip(ns["gen"](op[1]), ns["gen2"](op[2])):
                        pass
                    gc.collect()
                elif kind == "exhaust":
                    info["genops"] += 1
                    for _v in ns[op[1]](op[2]):
                        pass
                elif kind == "startclose":
                    info["genops"] += 1
                    gobj = ns[op[1]](op[2] + 1)
                    next(gobj)
                    gobj.close()
                    del gobj
                elif kind == "mkdrop":
                    info["genops"] += 1
                    gobj = ns[op[1]](op[2])
                    del gobj
                    gc.collect()
                elif kind == "mk_thrown":
                    info["genops"] += 1
                    gobj = ns["gen2"](0)
                    next(gobj)
                    gobj.throw(ValueError("thrown by the driver"))
                    gens.append(gobj)
                    started.add(len(gens) - 1)
                    info["suspended_seen"] = True
                    info["throws_answered"] = info.get("throws_answered", 0) + 1
                elif kind == "mk_unstarted":
                    info["genops"] += 1
                    gens.append(ns[op[1]](op[2]))
            except Exception as ex:
                problems.append({"after": where, "problem": "exception: " + common.fmt_exc(ex)})
                break
            if not check_current(where):
                break
            if kind in ("enter", "leave") and info["genops"]:
                info["observations_after_genop"] += 1
        # wind down: finish generators (non-LIFO: oldest first), then leave overlays
        if not problems:
            try:
                for i, gobj in enumerate(gens):
                    if gobj is not None:
                        gobj.close()
                        if not check_current(f"wind-down close of generator slot {i}"):
                            break
                gens[:] = []
                gc.collect()
                while stack:
                    stack.pop()["ol"].__exit__(None, None, None)
                check_current("wind-down: all driver overlays left")
            except Exception as ex:
                problems.append({"after": "wind-down", "problem": "exception: " + common.fmt_exc(ex)})
        return 0

    pre_overlays = []
    try:
        for k in pre:
            o = mk_overlay(k)
            o["outside_outer"] = True
            o["ol"].__enter__()
            pre_overlays.append(o)
        if placement == "outer":
            ns["outer"](driver)
        else:
            driver()
        for o in reversed(pre_overlays):
            o["ol"].__exit__(None, None, None)
        res.deciding += 1
        if not problems and HC.current.get() is not base0 and not (HC.current.get() is None or not HC.current.get().handler_pairs) :
            problems.append({"after": "history end", "problem": f"HandlerCollection.current is not what it was before the history: {_names(HC.current.get())}"})
    except Exception as ex:
        problems.append({"after": "history", "problem": "exception: " + common.fmt_exc(ex)})
    finally:
        HC.current.set(base0)
        for so in selobjs:
            try:
                autotool(so, undo=True)
            except Exception:
                pass
    return problems, info


def _names(cur):
    if cur is None:
        return None
    return [str(sel) for sel, _ in cur.handler_pairs]


def run_shard(spec):
    res = ShardResult()
    known = set(spec.get("known", []))
    mech = "suspended-generator-context-leak"
    finding_stream = spec.get("finding") == mech
    atomic_only = (mech in known) and not finding_stream
    s0, cnt = spec["range"]
    ns = None
    for n, i in enumerate(range(s0, s0 + cnt)):
        if ns is None or n % 50 == 0:
            ns = load(spec["scratch"], f"{s0}_{n}")
        rnd = rng_for("C09", spec["seed"], i)
        placement = rnd.choice(["top", "outer"])
        pre = [k for k in (0, 1, 3) if rnd.random() < 0.5]
        ops = gen_history(rnd, rnd.randint(3, spec["maxlen"]), atomic_only)
        case = {"placement": placement, "pre": pre, "ops": ops}
        res.evaluations += 1
        problems, info = run_history(ns, placement, pre, ops, res)
        if problems:
            ns = None
            suspending = any(op[0] in SUSPENDING for op in ops)
            if finding_stream and suspending:
                res.finding(mech, {"case": case, "problems": problems[:2]})
            else:
                res.violation(case, problems[:3])
        if info["genops"] and info["observations_after_genop"]:
            res.nontrivial_case([placement, pre, ops])
        if info["suspended_seen"]:
            res.count("histories_with_suspension")
        if info.get("throws_answered"):
            res.count("throws_answered_by_a_value", info["throws_answered"])
        res.count("steps", len(ops))
        if n % 400 == 0:
            res.sample(case)
    return res.as_dict()


def plan(tier, seed, known):
    n, shards, maxlen = (4000, 12, 10) if tier == "quick" else (80000, 32, 16)
    specs = [{"range": [s, c], "maxlen": maxlen} for s, c in common.split_range(n, shards)]
    for mech in known:
        specs.append({"range": [10**6, 300], "maxlen": 8, "finding": mech})
    return specs


def replay(case):
    res = ShardResult()
    ns = load(common.scratch_dir("C09r"), "replay")
    print("placement:", case["placement"], "pre-overlays:", [SELECTORS[k] for k in case["pre"]])
    for op in case["ops"]:
        print("  op:", op if op[0] != "enter" else op + [SELECTORS[op[1]]])
    problems, info = run_history(ns, case["placement"], case["pre"], case["ops"], res)
    for p in problems:
        print("PROBLEM:", p)
    if problems:
        res.violation(case, problems[:3])
    return res.violations
