"""C17 - a probe's stream opens once, completes once at exit, and is silent outside."""

import importlib.util
import os

from vlib import common
from vlib.common import ShardResult, rng_for

PROPERTY = "C17"
LEVEL = "exploration"
RULE = (
    "A history = sequence (<= 12 quick / <= 20 thorough) of {attach pipeline stage (root subscriber, getitem, map, "
    "filter, kmap, scan-sum, min, max, count, sum, last, average), activate (with-block or global), call f(x), "
    "deactivate (normally / by exception / explicit), re-activation attempt (on the root or through a child stage, "
    "while active and after), refused activation of a fresh (multi-selector) probe with a pipeline attached, call} over two probes on one function.  Every stage is subscribed through a "
    "CompletionCounter (on_next / on_completed / on_error counts).  After every step the monitor compares every "
    "stage's on_next list with a reference computed from exactly the events delivered while the probe was active and "
    "after the stage was attached, checks on_completed == 1 iff the probe has been deactivated (and the stage was "
    "attached before that), never an on_error, and that a refused re-activation left instrument_count, the installed "
    "code, HandlerCollection.current and every output unchanged.  non-trivial = history with an activation, >= 1 call "
    "inside and >= 1 call outside the active period, and a stage attached part-way; distinct = distinct op sequences.  "
    "Plus four child interpreters (global_probe / probing().activate() / with-block then global probe / a global probe next to six whose completion fails) run to their exit: "
    "every reduction prints exactly one result, for the probes still active after the end of the main program."
)
ASSUMPTIONS = [
    "Reference for the event stream of f(x): [{a:x+1,b:x+1},{a:x+1,b:2(x+1)}] for 'f(a) > b' and [{a:x+1}] for 'f > a' (hand-derived from the 5-line program).",
    "Reductions over an EMPTY active period (no event after attachment) are only required to terminate once with at most one value (rx raises SequenceContainsNoElements for min/max/last/average; the statement does not define them).",
    "A stage attached after deactivation must stay silent; whether it is ever completed is not asserted.",
    "Deactivating the same probe twice is not in the statement's operation list and is not generated.",
]
MECHANISMS = {}
MIN_DECIDING = {"quick": 10000, "thorough": 200000}
SHARD_TIMEOUT = {"quick": 900, "thorough": 7200}

SRC = '''
def f(x):
    a = x + 1
    for i in range(2):
        b = a * (i + 1)
    return b
'''
PROBES = ["f(a) > b", "f > a"]


def events_for(pi, x):
    if pi == 0:
        return [{"a": x + 1, "b": x + 1}, {"a": x + 1, "b": 2 * (x + 1)}]
    return [{"a": x + 1}]


STAGES = ["root", "item", "map", "filter", "kmap", "scan", "min", "max", "count", "sum", "last", "average"]
REDUCERS = {"min", "max", "count", "sum", "last", "average"}


def build_stage(p, pi, kind):
    key = "b" if pi == 0 else "a"
    if kind == "root":
        return p
    if kind == "item":
        return p[key]
    if kind == "map":
        return p[key].map(lambda v: v * 10)
    if kind == "filter":
        return p[key].filter(lambda v: v % 4 == 0)
    if kind == "kmap":
        return p.kmap((lambda a, b: a + b) if pi == 0 else (lambda a: a + 1))
    if kind == "scan":
        return p[key].sum(scan=True)
    return getattr(p[key], kind)()


def ref_stage(pi, kind, evs):
    key = "b" if pi == 0 else "a"
    vals = [e[key] for e in evs]
    if kind == "root":
        return list(evs)
    if kind == "item":
        return vals
    if kind == "map":
        return [v * 10 for v in vals]
    if kind == "filter":
        return [v for v in vals if v % 4 == 0]
    if kind == "kmap":
        return [e["a"] + e["b"] for e in evs] if pi == 0 else [e["a"] + 1 for e in evs]
    if kind == "scan":
        out, s = [], 0
        for v in vals:
            s += v
            out.append(s)
        return out
    if not vals:
        return None
    return {
        "min": [min(vals)],
        "max": [max(vals)],
        "count": [len(vals)],
        "sum": [sum(vals)],
        "last": [vals[-1]],
        "average": [sum(vals) / len(vals)],
    }[kind]


def load(scratch, tag):
    name = f"c17m_{tag}"
    path = os.path.join(scratch, name + ".py")
    with open(path, "w") as f:
        f.write(SRC)
    sp = importlib.util.spec_from_file_location(name, path)
    mod = importlib.util.module_from_spec(sp)
    sp.loader.exec_module(mod)
    return vars(mod)


def gen_history(rnd, length):
    ops = []
    for _ in range(length):
        r = rnd.random()
        pi = rnd.randrange(2)
        if r < 0.04:
            # a subscriber without error handler whose completion fails: a reduction whose result
            # handler raises (or, over an empty period, rx's "no elements" error)
            ops.append(["stage", pi, "raiser"])
        elif r < 0.30:
            ops.append(["stage", pi, rnd.choice(STAGES)])
        elif r < 0.45:
            ops.append(["activate", pi, rnd.choice(["with", "global", "child"])])
        elif r < 0.60:
            ops.append(["deactivate", pi, rnd.choice(["normal", "exception", "explicit"])])
        elif r < 0.66:
            ops.append(["reactivate", pi, rnd.choice(["root", "child", "activate"])])
        elif r < 0.72:
            ops.append(["bad_activate", rnd.choice(["f > a|f > nosuch", "f(a) > b|nofn > x", "f > nosuch2", "f > b|f > #nometa"])])
        else:
            ops.append(["call", rnd.randint(0, 9)])
    return ops


class HarnessInterrupt(BaseException):
    """Raised by a result handler in place of KeyboardInterrupt / SystemExit."""


class PState:
    def __init__(self, ns, pi):
        from ptera import probing

        self.pi = pi
        self.p = probing(PROBES[pi], env=ns)
        self.state = "new"  # new | active | done
        self.delivered = []  # reference events delivered while active
        self.stages = []  # dict(kind, obs, next, done, err, at, attached_state)
        self.entered_via = None

    def attach(self, kind):
        if kind == "raiser":
            if self.state != "done":
                self.raisers = getattr(self, "raisers", 0) + 1
                key = "b" if self.pi == 0 else "a"

                # every second failing handler raises something that is not an Exception (what a
                # KeyboardInterrupt or a sys.exit() guard inside a result handler amounts to)
                interrupt = (self.raisers + self.pi) % 2 == 0

                def fail(v, interrupt=interrupt):
                    if interrupt:
                        raise HarnessInterrupt("result handler interrupted")
                    raise RuntimeError("result handler fails")

                self.p[key].max().subscribe(fail)
            return None
        obs = build_stage(self.p, self.pi, kind)
        st = {"kind": kind, "obs": obs, "next": [], "done": [0], "err": [], "at": len(self.delivered), "when": self.state}
        obs.subscribe(
            on_next=st["next"].append,
            on_completed=lambda st=st: st["done"].__setitem__(0, st["done"][0] + 1),
            on_error=lambda e, st=st: st["err"].append(repr(e)),
        )
        self.stages.append(st)
        return st


def run_history(ns, ops, res):
    from ptera.overlay import HandlerCollection

    f = ns["f"]
    orig = f.__code__
    ps = [PState(ns, 0), PState(ns, 1)]
    problems = []
    info = {"activated": False, "calls_in": 0, "calls_out": 0, "late_stage": False, "refusals": 0}
    base = HandlerCollection.current.get()

    def snapshot():
        st = getattr(f, "__ptera_stack__", None)
        cur = HandlerCollection.current.get()
        return (
            st.instrument_count if st else 0,
            f.__code__,
            tuple(id(acc) for _, acc in (cur.handler_pairs if cur else [])),
            tuple((tuple(map(repr, s["next"])), s["done"][0], tuple(s["err"])) for p in ps for s in p.stages),
        )

    def check(where):
        res.deciding += 1
        nactive = sum(1 for p in ps if p.state == "active")
        st = getattr(f, "__ptera_stack__", None)
        ic = st.instrument_count if st else 0
        if ic != nactive:
            problems.append({"after": where, "problem": f"instrument_count {ic} != active probes {nactive}"})
        if (f.__code__ is orig) != (nactive == 0):
            problems.append({"after": where, "problem": f"f runs {'original' if f.__code__ is orig else 'instrumented'} code with {nactive} active probe(s)"})
        cur = HandlerCollection.current.get()
        nh = len(cur.handler_pairs) if cur else 0
        if nh != nactive:
            problems.append({"after": where, "problem": f"{nh} handler(s) installed, {nactive} probe(s) active"})
        for p in ps:
            for s in p.stages:
                if s["when"] == "done":
                    exp, done_exp = [], None
                else:
                    evs = p.delivered[s["at"]:]
                    if s["kind"] in REDUCERS:
                        exp = [] if p.state != "done" else ref_stage(p.pi, s["kind"], evs)
                    else:
                        exp = ref_stage(p.pi, s["kind"], evs)
                    done_exp = 1 if p.state == "done" else 0
                label = f"probe {PROBES[p.pi]!r} stage {s['kind']} (attached while {s['when']} at event #{s['at']})"
                if exp is None:
                    # reduction over an empty period: at most one value, terminated exactly once
                    if len(s["next"]) > 1 or (s["done"][0] + len(s["err"])) != 1:
                        problems.append({"after": where, "problem": f"{label}: empty-period reduction gave next={s['next']} completed={s['done'][0]} errors={s['err']}"})
                    continue
                if s["next"] != exp:
                    problems.append({"after": where, "problem": f"{label}: on_next {s['next'][-6:]} (n={len(s['next'])}), reference {exp[-6:]} (n={len(exp)})"})
                if s["err"]:
                    problems.append({"after": where, "problem": f"{label}: on_error {s['err']}"})
                if done_exp is not None and s["done"][0] != done_exp:
                    problems.append({"after": where, "problem": f"{label}: on_completed called {s['done'][0]} time(s), expected {done_exp}"})
                if done_exp is None and s["done"][0] > 1:
                    problems.append({"after": where, "problem": f"{label}: on_completed called {s['done'][0]} times"})
        return not problems

    ghosts = []  # stages of probes whose activation was refused: must stay silent for ever

    for step, op in enumerate(ops):
        where = f"step {step} {op}"
        kind = op[0]
        try:
            if kind == "bad_activate":
                from ptera import probing

                before = snapshot()
                gout = []
                gcnt = []
                err = None
                try:
                    gp = probing(*op[1].split("|"), env=ns)  # may already refuse (unresolvable function)
                    gp.subscribe(lambda d, gout=gout: gout.append(dict(d)))
                    if "f > a" in op[1]:
                        gp["a"].count().subscribe(gcnt.append)
                    gp.__enter__()
                except Exception as ex:
                    err = ex
                info["refusals"] += 1
                res.deciding += 1
                ghosts.append((op[1], gout, gcnt))
                if err is None:
                    problems.append({"after": where, "problem": f"activation of {op[1]!r} was not refused"})
                    break
                if snapshot() != before:
                    problems.append({"after": where, "problem": f"refused activation of {op[1]!r} changed instrumentation / handlers / outputs"})
                    break
            elif kind == "stage":
                p = ps[op[1]]
                s = p.attach(op[2])
                if p.state == "active" and p.delivered:
                    info["late_stage"] = True
            elif kind == "activate":
                p = ps[op[1]]
                if p.state != "new":
                    op = ["reactivate", op[1], "root"]
                    kind = "reactivate"
                else:
                    if op[2] == "child":
                        s = p.attach("count")
                        s["obs"].__enter__()
                        p.entered_via = s["obs"]
                    elif op[2] == "global":
                        p.p.activate()
                        p.entered_via = p.p
                    else:
                        p.p.__enter__()
                        p.entered_via = p.p
                    p.state = "active"
                    info["activated"] = True
            if kind == "reactivate":
                p = ps[op[1]]
                if p.state == "new":
                    continue
                before = snapshot()
                err = None
                try:
                    if op[2] == "child":
                        child = p.p["a"].map(lambda v: v)
                        child.__enter__()
                    elif op[2] == "activate":
                        p.p.activate()
                    else:
                        p.p.__enter__()
                except Exception as ex:
                    err = ex
                info["refusals"] += 1
                res.deciding += 1
                if err is None:
                    problems.append({"after": where, "problem": f"second activation of probe {PROBES[p.pi]!r} (state {p.state}) was not refused"})
                    break
                if snapshot() != before:
                    problems.append({"after": where, "problem": "refused re-activation changed instrumentation / handlers / outputs"})
                    break
            elif kind == "deactivate":
                p = ps[op[1]]
                if p.state != "active":
                    continue
                via = p.entered_via
                try:
                    if op[2] == "exception":
                        via.__exit__(ValueError, ValueError("boom"), None)
                    elif op[2] == "explicit":
                        p.p.deactivate()
                    else:
                        via.__exit__(None, None, None)
                except (Exception, HarnessInterrupt) as ex:
                    # completing a failing subscriber raises out of the deactivation; the probe
                    # must be deactivated nonetheless (checked below like any deactivation)
                    if not getattr(p, "raisers", 0) or type(ex).__name__ not in ("RuntimeError", "SequenceContainsNoElementsError", "HarnessInterrupt"):
                        raise
                    info["failing_completions"] = info.get("failing_completions", 0) + 1
                    if isinstance(ex, HarnessInterrupt):
                        info["interrupted_completions"] = info.get("interrupted_completions", 0) + 1
                p.state = "done"
            elif kind == "call":
                x = op[1]
                r = f(x)
                if r != 2 * (x + 1):
                    problems.append({"after": where, "problem": f"f({x}) returned {r}"})
                any_active = False
                for p in ps:
                    if p.state == "active":
                        p.delivered.extend(events_for(p.pi, x))
                        any_active = True
                if any_active:
                    info["calls_in"] += 1
                else:
                    info["calls_out"] += 1
        except Exception as ex:
            problems.append({"after": where, "problem": "exception: " + common.fmt_exc(ex)})
            break
        for sel, gout, gcnt in ghosts:
            if gout or gcnt:
                problems.append({"after": where, "problem": f"events reached the pipeline of the probe {sel!r} whose activation was refused: {gout[:3]} {gcnt[:3]}"})
        if problems or not check(where):
            break
    if not problems:
        try:
            for p in ps:
                if p.state == "active":
                    try:
                        p.entered_via.__exit__(None, None, None)
                    except (Exception, HarnessInterrupt) as ex:
                        if not getattr(p, "raisers", 0) or type(ex).__name__ not in ("RuntimeError", "SequenceContainsNoElementsError", "HarnessInterrupt"):
                            raise
                        if isinstance(ex, HarnessInterrupt):
                            info["interrupted_completions"] = info.get("interrupted_completions", 0) + 1
                    p.state = "done"
            f(3)
            check("wind-down (everything deactivated, one more call)")
        except Exception as ex:
            problems.append({"after": "wind-down", "problem": "exception: " + common.fmt_exc(ex)})
    HandlerCollection.current.set(base)
    from ptera import probe as probe_mod

    probe_mod.global_probes.clear()
    return problems, info


EXIT_CHILD = """
import sys
from ptera import probing, global_probe

def f(x):
    a = x + 1
    b = a * 2
    return b

def g(x):
    c = x
    return c

how = sys.argv[1]
if how == "failing-siblings":
    # several global probes whose completion fails (min over an empty stream) next to one that works
    for _ in range(6):
        global_probe("g > c")["c"].min().subscribe(lambda v: print("RESULT min", v))
p = global_probe("f > b") if how in ("global_probe", "failing-siblings") else probing("f > b")
p["b"].max().subscribe(lambda v: print("RESULT max", v))
p["b"].count().subscribe(lambda v: print("RESULT count", v))
p["b"].subscribe(lambda v: print("EVENT", v))
if how == "activate":
    p.activate()
elif how == "with-then-global":
    with p:
        f(1)
    q = global_probe("f > a")
    q["a"].sum().subscribe(lambda v: print("RESULT sum", v))
for x in (1, 4, 2):
    f(x)
print("END-OF-MAIN")
"""


def check_interpreter_exit(spec, res):
    """A probe that is still active when the interpreter exits is deactivated then: its reductions
    publish exactly one result, after the last event (child interpreters, one per activation style)."""
    import subprocess
    import sys

    path = os.path.join(spec["scratch"], "c17_exit_child.py")
    with open(path, "w") as fh:
        fh.write(EXIT_CHILD)
    repo = os.environ.get("PTERA_REPO", "/repo")
    env = dict(os.environ, PYTHONPATH=repo + os.pathsep + os.environ.get("PYTHONPATH", ""))
    expect = {
        "global_probe": ["EVENT 4", "EVENT 10", "EVENT 6", "END-OF-MAIN", "RESULT count 3", "RESULT max 10"],
        "activate": ["EVENT 4", "EVENT 10", "EVENT 6", "END-OF-MAIN", "RESULT count 3", "RESULT max 10"],
        "with-then-global": ["EVENT 4", "RESULT count 1", "RESULT max 4", "END-OF-MAIN", "RESULT sum 10"],
        "failing-siblings": ["EVENT 4", "EVENT 10", "EVENT 6", "END-OF-MAIN", "RESULT count 3", "RESULT max 10"],
    }
    for how, exp in expect.items():
        res.evaluations += 1
        case = {"interpreter_exit": how}
        try:
            r = subprocess.run([sys.executable, path, how], capture_output=True, text=True, timeout=120, env=env)
        except subprocess.TimeoutExpired:
            res.note(f"child interpreter for {how} timed out (inconclusive)") if hasattr(res, "note") else None
            continue
        res.deciding += 1
        lines = [l for l in r.stdout.splitlines() if l.startswith(("EVENT", "RESULT", "END-OF-MAIN"))]
        main, tail = lines[: lines.index("END-OF-MAIN") + 1] if "END-OF-MAIN" in lines else lines, lines[lines.index("END-OF-MAIN") + 1:] if "END-OF-MAIN" in lines else []
        emain, etail = exp[: exp.index("END-OF-MAIN") + 1], exp[exp.index("END-OF-MAIN") + 1:]
        # results published within one completion pass have no specified relative order
        cut = next((i for i, l in enumerate(main) if l.startswith("RESULT")), len(main))
        cute = next((i for i, l in enumerate(emain) if l.startswith("RESULT")), len(emain))
        ok = main[:cut] == emain[:cute] and sorted(main[cut:]) == sorted(emain[cute:]) and sorted(tail) == sorted(etail) and r.returncode == 0
        if not ok:
            res.violation(case, {"what": "reductions of a probe still active at interpreter exit", "expected": exp, "got": lines, "returncode": r.returncode, "stderr": r.stderr[-600:]})
        res.count("interpreter_exit_children")
        res.nontrivial_case(["exit", how])


def run_shard(spec):
    res = ShardResult()
    s0, cnt = spec["range"]
    ns = None
    if s0 == 0:
        check_interpreter_exit(spec, res)
    for n, i in enumerate(range(s0, s0 + cnt)):
        if ns is None or n % 50 == 0:
            ns = load(spec["scratch"], f"{s0}_{n}")
        rnd = rng_for("C17", spec["seed"], i)
        ops = gen_history(rnd, rnd.randint(4, spec["maxlen"]))
        case = {"ops": ops}
        res.evaluations += 1
        problems, info = run_history(ns, ops, res)
        if problems:
            ns = None
            res.violation(case, problems[:3])
        if info["activated"] and info["calls_in"] and info["calls_out"] and info["late_stage"]:
            res.nontrivial_case(ops)
        res.count("refused_reactivations", info["refusals"])
        res.count("failing_completions", info.get("failing_completions", 0))
        res.count("interrupted_completions", info.get("interrupted_completions", 0))
        res.count("steps", len(ops))
        if n % 400 == 0:
            res.sample(case)
    return res.as_dict()


def plan(tier, seed, known):
    n, shards, maxlen = (24000, 16, 14) if tier == "quick" else (400000, 32, 22)
    return [{"range": [s, c], "maxlen": maxlen} for s, c in common.split_range(n, shards)]


def replay(case):
    res = ShardResult()
    if "interpreter_exit" in case:
        check_interpreter_exit({"scratch": common.scratch_dir("C17r")}, res)
        return [v for v in res.violations if v["case"].get("interpreter_exit") == case["interpreter_exit"]]
    ns = load(common.scratch_dir("C17r"), "replay")
    for op in case["ops"]:
        print("  op:", op)
    problems, info = run_history(ns, case["ops"], res)
    for p in problems:
        print("PROBLEM:", p)
    if problems:
        res.violation(case, problems[:3])
    return res.violations
