"""C03 - call-path selectors fire once per way the path matches the live call stack."""

import collections

from vlib import calltree as CT, common
from vlib.common import ShardResult, rng_for

PROPERTY = "C03"
LEVEL = "exploration"
RULE = (
    "A (call tree, selector) pair: call trees over a generated family of 3-5 mutually calling functions (direct, "
    "indirect, recursive calls, repeated siblings, re-entry after return, raising activations) are forced through a "
    "script argument; selectors are chains of depth 1-4 with captures at every level, sibling sub-selectors nested up "
    "to depth 2, aliases, focus at any position, rendered with '!' or '>' chains.  Enumerated part: all call trees with "
    "<= N activations over 3 functions x systematic chain selectors; random part: trees of up to 12 (quick) / 16 "
    "(thorough) activations; 30% of the random pairs run together with a focus-free companion rule whose handler raises at the end of some calls (the caller goes on).  Events from BaseOverlay(Immediate) / probing() are compared with an independent matcher "
    "(one event per order-preserving embedding of the selector path into the ancestor chain) as a multiset per focus "
    "binding plus exact order across bindings.  non-trivial = the reference expects >= 1 event; distinct = distinct "
    "(tree, selector) pairs; `embeddings_ge2` counts pairs where some binding has >= 2 embeddings."
)
ASSUMPTIONS = [
    "Reference matcher (vlib/calltree.py reference_immediate) is written from the C03 statement over the program's own log; it never reads ptera state.",
    "Sibling captures are read inclusively of the triggering binding (a sibling sub-selector naming the focus function/variable sees the value being bound): the statement leaves this corner open and the inclusive reading is the one ptera implements.",
    "Every capture has a unique alias; behaviour of two levels sharing a capture name is not asserted.",
    "Order among the events of one binding is not asserted.",
]
MECHANISMS = {}
MIN_DECIDING = {"quick": 1500, "thorough": 50000}
SHARD_TIMEOUT = {"quick": 900, "thorough": 7200}


class Reject(ValueError):
    """Raised by the handler of a companion total rule when an outermost call of its function ends;
    the family's callers swallow ValueError, so the run goes on in the caller."""


def observe(ns, s, tree, fkey, mode, companion=None):
    """Run tree under selector s; return (got {focusval: [events]}, order [focusvals]).
    companion = (function index, every): a focus-free rule on that function is active at the same
    time and its handler raises on every `every`-th record."""
    from ptera import probing
    from ptera.interpret import Immediate
    from ptera.overlay import BaseOverlay, autotool
    from ptera.selector import select

    got = collections.defaultdict(list)
    order = []
    ns["reset"]()
    nrec = [0]

    def raiser(d):
        nrec[0] += 1
        if nrec[0] % companion[1] == 0:
            raise Reject(nrec[0])

    ctext = f"F{companion[0]}(v)" if companion else None
    if mode == "overlay":
        from ptera.interpret import Total

        selobj = select(s, env=ns)

        def trig(d):
            dd = {k: c.value for k, c in d.items()}
            got[dd[fkey]].append(dd)
            order.append(dd[fkey])

        rules = [Immediate(selobj, trigger=trig)]
        csel = None
        if companion:
            csel = select(ctext, env=ns)
            autotool(csel)
            rules.append(Total(csel, close=raiser))
        autotool(selobj)
        try:
            with BaseOverlay(*rules):
                CT.run_tree(ns, tree)
        finally:
            autotool(selobj, undo=True)
            if csel is not None:
                autotool(csel, undo=True)
    else:
        import contextlib

        with contextlib.ExitStack() as stack:
            if companion:
                cp = stack.enter_context(probing(ctext, env=ns, raw=True))
                cp.subscribe(raiser)
            prb = stack.enter_context(probing(s, env=ns))

            def sub(dd):
                dd = dict(dd)
                got[dd[fkey]].append(dd)
                order.append(dd[fkey])
            prb.subscribe(sub)
            CT.run_tree(ns, tree)
    if companion:
        got_n = nrec[0]
        exp_n = sum(1 for e in ns["LOG"] if e[0] == "enter" and e[3] == companion[0])
        if got_n != exp_n:
            raise AssertionError(f"companion total rule F{companion[0]}(v) delivered {got_n} records for {exp_n} calls")
    return got, order


def check_pair(ns, tree, sel, fpath, fvar, chain, mode, res, case):
    s = CT.render(sel, fpath, fvar, chain=chain)
    case = dict(case, selector=s)
    fkey = CT.alias(fvar, tuple(fpath))
    res.evaluations += 1
    try:
        got, order = observe(ns, s, tree, fkey, mode, case.get("companion"))
    except Exception as e:
        res.violation(case, "exception while observing: " + common.fmt_exc(e))
        return
    log = list(ns["LOG"])
    exp, exp_order = CT.reference_immediate(log, sel, fpath, fvar)
    res.deciding += 1
    if CT.canon_events(exp) != CT.canon_events(got):
        res.violation(case, {"what": "event multiset per binding differs", "expected": CT.canon_events(exp), "got": CT.canon_events(got)})
    elif exp_order != order:
        res.violation(case, {"what": "order across bindings differs", "expected": exp_order, "got": order})
    nev = sum(len(v) for v in exp.values())
    res.count("events", nev)
    if nev:
        res.nontrivial_case([tree, s])
    if any(len(v) >= 2 for v in exp.values()):
        res.count("pairs_embeddings_ge2")
    if any(len(ev) > 1 for v in exp.values() for ev in v):
        res.count("pairs_with_context")
    return s, nev


def chain_selectors(nf, depth):
    """Systematic chain selectors F_i(a_i) > F_j(a_j) > ... > v over nf functions."""
    import itertools

    for d in range(1, depth + 1):
        for fns in itertools.product(range(nf), repeat=d):
            for fv in ("a", "b", "v"):
                sel = None
                for li in reversed(range(d)):
                    f = fns[li]
                    caps = [f"a{f}"] if li < d - 1 else []
                    if li == d - 1:
                        v = fv + str(f) if fv != "v" else "v"
                        caps = caps + [v]
                    sel = ["call", f, caps, [sel] if sel else []]
                yield sel, [0] * (d - 1), (fv + str(fns[-1]) if fv != "v" else "v")


def run_shard(spec):
    res = ShardResult()
    part = spec["part"]
    scratch = spec["scratch"]
    if part == "enum":
        ns = CT.load_family(scratch, f"c03fam_e{spec['n']}_{spec['shard']}", 3)
        sels = list(chain_selectors(3, spec["sel_depth"]))
        trees = [t for i, t in enumerate(CT.all_trees(3, spec["n"])) if i % spec["nshards"] == spec["shard"]]
        for ti, tree in enumerate(trees):
            for si, (sel, fpath, fvar) in enumerate(sels):
                if (ti + si) % spec.get("stride", 1):
                    continue
                case = {"part": "enum", "nf": 3, "tree": tree, "sel": sel, "fpath": fpath, "fvar": fvar, "chain": bool(si % 2), "mode": "overlay" if ti % 2 else "probing"}
                r = check_pair(ns, tree, sel, fpath, fvar, case["chain"], case["mode"], res, case)
                if r and ti == 7 and si % 40 == 0:
                    res.sample({"tree": tree, "selector": r[0], "events_expected": r[1]})
        return res.as_dict()
    s0, cnt = spec["range"]
    ns = None
    for i in range(s0, s0 + cnt):
        rnd = rng_for("C03", spec["seed"], i)
        if ns is None or i % 40 == 0:
            nf = rnd.randint(3, 5)
            ns = CT.load_family(scratch, f"c03fam_{i}", nf)
            ns["__nf"] = nf
        nf = ns["__nf"]
        tree = CT.rand_tree(rnd, nf, [rnd.randint(2, spec["maxact"])], p_raise=0.1)
        sel = CT.rand_sel(rnd, nf, rnd.randint(0, 3))
        fpath, fvar = CT.place_focus(rnd, sel)
        if i % 5 == 0:
            # shaped case: F(a_F, G(v)) > H > b_H / c_H, where H binds its focus variable several
            # times and calls G in between (G's value first exists after H already fired), under
            # an F that may or may not have called G before
            F, G, H = (rnd.randrange(nf) for _ in range(3))
            sel = ["call", F, [f"a{F}"], [["call", G, ["v"], []], ["call", H, [rnd.choice([f"b{H}", f"c{H}"])], []]]]
            fpath, fvar = [1], sel[3][1][2][0]
            hkids = [[G if rnd.random() < 0.6 else rnd.randrange(nf), [], 0] for _ in range(rnd.randint(2, 3))]
            fkids = ([[G, [], 0]] if rnd.random() < 0.3 else []) + [[H, hkids, 0]] + ([[H, [[G, [], 0]], 0]] if rnd.random() < 0.4 else [])
            tree = [F, fkids, 0]
            res.count("shaped_sibling_cases")
        chain = rnd.random() < 0.5
        mode = "overlay" if rnd.random() < 0.5 else "probing"
        case = {"part": "rand", "nf": nf, "tree": tree, "sel": sel, "fpath": fpath, "fvar": fvar, "chain": chain, "mode": mode}
        if rnd.random() < 0.3:
            case["companion"] = [sel[1] if rnd.random() < 0.6 else rnd.randrange(nf), rnd.randint(1, 3)]
            res.count("pairs_with_raising_companion_rule")
        r = check_pair(ns, tree, sel, fpath, fvar, chain, mode, res, case)
        if r and i % 500 == 0:
            res.sample({"tree": tree, "selector": r[0], "events_expected": r[1]})
    return res.as_dict()


def plan(tier, seed, known):
    specs = []
    if tier == "quick":
        for n in (1, 2, 3, 4):
            specs.append({"part": "enum", "n": n, "sel_depth": 3, "shard": 0, "nshards": 1, "stride": 1 if n < 4 else 3})
        n, shards, maxact = 4000, 12, 12
    else:
        for n in (1, 2, 3, 4, 5):
            k = 1 if n < 5 else 8
            for sh in range(k):
                specs.append({"part": "enum", "n": n, "sel_depth": 3, "shard": sh, "nshards": k, "stride": 1})
        for sh in range(16):
            specs.append({"part": "enum", "n": 6, "sel_depth": 3, "shard": sh, "nshards": 16, "stride": 7})
        n, shards, maxact = 80000, 32, 16
    for s, c in common.split_range(n, shards):
        specs.append({"part": "rand", "range": [s, c], "maxact": maxact})
    return specs


def replay(case):
    res = ShardResult()
    d = common.scratch_dir("C03r")
    ns = CT.load_family(d, "c03fam_replay", case["nf"])
    print("tree:", case["tree"])
    print("selector:", CT.render(case["sel"], case["fpath"], case["fvar"], chain=case["chain"]))
    check_pair(ns, case["tree"], case["sel"], case["fpath"], case["fvar"], case["chain"], case["mode"], res, case)
    return res.violations
