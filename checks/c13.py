"""C13 - method selectors bind to the right function and the right receiver."""

import importlib.util
import os

from vlib import common
from vlib.common import ShardResult, rng_for

PROPERTY = "C13"
LEVEL = "exploration"
RULE = (
    "A case = a population of 2-7 instances drawn from {plain class, value-equal + hashable, value-equal without "
    "__hash__, expression-builder equality (== returns a truthy node), equality that raises on foreign operands, list subclass (receiver named 'me'), dict subclass (receiver named 'this'), subclass inheriting the "
    "method, subclass overriding it, subclass whose method uses class-private (mangled) names, class with a functools.wraps-decorated method (plain, over an already tooled function, applied while a probe was active on the function, applied after a probe on the function was released), class with a property} with small "
    "keys so that equal-but-distinct receivers occur, 1-3 selectors (often on receivers sharing one method; some activated part-way through the history, some deactivated - most recent first - while calls go on) from {Cls.meth > v, "
    "obj.meth > v, box.holder.obj.meth > v (dotted path), objI.relay > objJ.meth > v (two bound methods on one path, both receivers usually named self), sweep > obj.meth > v (the receiver condition sits in an inner call of a call path; sweep calls the method on every instance), decorated method through class or object, property through "
    "the class}, and a random sequence of 4-14 calls over the population plus calls of a module-level function that "
    "shares the method's name.  Oracle per selector: class form -> one event per call that executes that function "
    "object; object form -> exactly the calls whose receiver `is` the object, each event carrying that receiver under "
    "the receiver parameter's name; namesake function: original code object, no events.  non-trivial = the population "
    "holds a second receiver equal to (==) but distinct from the probed one, or an unhashable receiver is probed; "
    "distinct = distinct (population, selectors, calls)."
)
ASSUMPTIONS = [
    "Unique call arguments identify the call an event belongs to.",
    "A property is selected through its class (obj.prop evaluates the property instead of naming it).",
]
MECHANISMS = {
    "receiver-equality-not-identity": "obj.meth > v is enforced as `receiver == obj` through an interned (hashed) selector element: an equal-but-distinct receiver also matches, and an unhashable receiver makes probing() raise TypeError",
}
MIN_DECIDING = {"quick": 10000, "thorough": 200000}
SHARD_TIMEOUT = {"quick": 900, "thorough": 7200}

SRC = '''
import functools
from ptera import probing, tooled

def deco(fn):
    @functools.wraps(fn)
    def wrapper(*a, **k):
        return fn(*a, **k)
    return wrapper

class Plain:
    def __init__(self, k):
        self.k = k
    def meth(self, x):
        v = x + self.k
        return v
    def relay(self, other, x):
        r = other.meth(x)
        return r

class Eq(Plain):
    def __eq__(self, other):
        return isinstance(other, Plain) and other.k == self.k
    def __hash__(self):
        return hash(self.k)

class EqNoHash(Plain):
    def __eq__(self, other):
        return isinstance(other, Plain) and other.k == self.k
    __hash__ = None

class Sub(Plain):
    pass

class EqExpr(Plain):
    """expression-builder style equality: == returns a (truthy) node, whatever the operand"""
    def __eq__(self, other):
        return ("eq-node", self, other)
    __hash__ = object.__hash__

class EqSloppy(Plain):
    """equality that assumes the other operand has the same attributes"""
    def __eq__(self, other):
        return self.k == other.k
    def __hash__(self):
        return hash(self.k)

class Priv(Plain):
    """the method uses class-private names (mangled to _Priv__name inside the class body)"""
    __bias = 5
    def __twice(self, x):
        return 2 * x
    def meth(self, x):
        v = self.__twice(x) + self.__bias + self.k
        return v

class Over(Plain):
    def meth(self, x):
        v = x * 1000 + self.k
        return v

class L(list):
    def meth(me, x):
        v = x + len(me) * 7
        return v

class D(dict):
    def meth(this, x):
        v = x + len(this) * 13
        return v

class Deco:
    def __init__(self, k):
        self.k = k
    @deco
    def meth(self, x):
        v = x - self.k
        return v

class DecoTooled:
    """the decorator wraps a function that is already tooled (functools.wraps copies its attributes)"""
    def __init__(self, k):
        self.k = k
    @deco
    @tooled
    def meth(self, x):
        v = x - 2 * self.k
        return v

class DecoLate:
    """the decorator is applied while a probe is active on the function"""
    def __init__(self, k):
        self.k = k
    def meth(self, x):
        v = x - 3 * self.k
        return v

with probing("DecoLate.meth > v"):
    DecoLate.meth = deco(DecoLate.meth)

class DecoAfter:
    """the decorator is applied after a probe on the function has come and gone"""
    def __init__(self, k):
        self.k = k
    def meth(self, x):
        v = x - 4 * self.k
        return v

with probing("DecoAfter.meth > v"):
    pass
DecoAfter.meth = deco(DecoAfter.meth)

class Prop:
    def __init__(self, k):
        self.k = k
    @property
    def pval(self):
        v = self.k * 2 + 1
        return v

def meth(x):
    v = -x
    return v

class Star:
    """a method without a named receiver parameter"""
    def meth(*args):
        v = args[1] * 2
        return v

class Box:
    pass

def sweep(objs, x):
    out = []
    for o in objs:
        out.append(o.pval if hasattr(type(o), "pval") else o.meth(x))
    return out
'''
PLAIN_FAMILY = ("Plain", "Eq", "EqNoHash", "Sub", "Over", "EqExpr", "EqSloppy", "Priv")
KINDS = ["Plain", "Eq", "EqNoHash", "Sub", "Over", "L", "D", "Deco", "Prop", "EqExpr", "EqSloppy", "DecoTooled", "DecoLate", "Priv", "DecoAfter"]
RECV = {"L": "me", "D": "this"}


def load(scratch, tag):
    name = f"c13m_{tag}"
    path = os.path.join(scratch, name + ".py")
    with open(path, "w") as f:
        f.write(SRC)
    sp = importlib.util.spec_from_file_location(name, path)
    mod = importlib.util.module_from_spec(sp)
    sp.loader.exec_module(mod)
    return vars(mod)


def make_instance(ns, kind, k):
    if kind == "L":
        return ns["L"](range(k))
    if kind == "D":
        return ns["D"]({i: i for i in range(k)})
    return ns[kind](k)


def func_of(ns, kind):
    """The function object a call on an instance of `kind` executes."""
    if kind in ("Plain", "Eq", "EqNoHash", "Sub", "EqExpr", "EqSloppy"):
        return ns["Plain"].__dict__["meth"]
    if kind in ("Deco", "DecoTooled", "DecoLate", "DecoAfter"):
        return ns[kind].__dict__["meth"].__wrapped__
    if kind == "Prop":
        return ns["Prop"].__dict__["pval"].fget
    return ns[kind].__dict__["meth"]


def expected_value(kind, k, x):
    if kind == "Priv":
        return 2 * x + 5 + k
    if kind == "Over":
        return x * 1000 + k
    if kind == "L":
        return x + k * 7
    if kind == "D":
        return x + k * 13
    if kind == "Deco":
        return x - k
    if kind == "DecoTooled":
        return x - 2 * k
    if kind == "DecoLate":
        return x - 3 * k
    if kind == "DecoAfter":
        return x - 4 * k
    if kind == "Prop":
        return k * 2 + 1
    return x + k


def gen_case(rnd):
    n = rnd.randint(2, 7)
    pop = []
    for _ in range(n):
        kind = rnd.choice(KINDS)
        pop.append([kind, rnd.randint(0, 2)])
    # make equal-but-distinct pairs likely
    if rnd.random() < 0.7:
        j = rnd.randrange(len(pop))
        pop.append(list(pop[j]))
    sels = []
    for si in range(rnd.choice([1, 1, 2, 2, 3])):
        r = rnd.random()
        j = rnd.randrange(len(pop))
        if si and rnd.random() < 0.5:
            # another receiver of the same class as the first selector (probes sharing one method)
            k0 = sels[0][1] if sels[0][0] == "class" else pop[sels[0][1]][0]
            same = [jj for jj, (kk, _) in enumerate(pop) if kk == k0]
            if same:
                j = rnd.choice(same)
        kind = pop[j][0]
        if r < 0.25:
            sels.append(["class", kind])
        elif r < 0.85 and kind != "Prop":
            sels.append(["object", j, rnd.choice(["direct", "dotted", "direct", "under_sweep", "named_receiver"])])
        else:
            sels.append(["class", kind])
    # a path of two bound methods: oI.relay > oJ.meth > v (both receivers are usually called self)
    relayers = [jj for jj, (kk, _) in enumerate(pop) if kk in PLAIN_FAMILY]
    targets_ = [jj for jj, (kk, _) in enumerate(pop) if kk != "Prop"]
    chain = None
    if relayers and targets_ and rnd.random() < 0.3:
        chain = ["chain", rnd.choice(relayers), rnd.choice(targets_)]
        sels.append(chain)
    calls = []
    for c in range(rnd.randint(4, 14)):
        if relayers and targets_ and rnd.random() < (0.35 if chain else 0.05):
            i_, j_ = (chain[1], chain[2]) if chain and rnd.random() < 0.5 else (rnd.choice(relayers), rnd.choice(targets_))
            calls.append(["relay", i_, j_, 300 + c])
            continue
        if rnd.random() < 0.12:
            calls.append(["namesake", 100 + c])
        else:
            calls.append(["inst", rnd.randrange(len(pop)), 100 + c])
        if rnd.random() < 0.25:
            calls.append(["sweep", 200 + c])
    # history: some probes are activated part-way, and probes are deactivated (most recent first)
    # while calls go on
    late = [si for si in range(1, len(sels)) if rnd.random() < 0.3]
    for si in late:
        calls.insert(rnd.randrange(len(calls) + 1), ["on", si])
    for _ in range(rnd.choice([0, 0, 1, 1, 2])):
        calls.insert(rnd.randrange(len(calls) // 2, len(calls) + 1), ["off"])
    return {"pop": pop, "sels": sels, "calls": calls, "late": late}


def run_case(ns, case, res):
    from ptera import probing
    from ptera.overlay import HandlerCollection

    problems = []
    pop = [make_instance(ns, kind, k) for kind, k in case["pop"]]
    env = dict(ns)
    for j, o in enumerate(pop):
        env[f"o{j}"] = o
    box = ns["Box"]()
    box.holder = ns["Box"]()
    env["box"] = box
    namesake_code = ns["meth"].__code__
    base = HandlerCollection.current.get()
    probes = []
    info = {"equal_distinct": False, "unhashable_probed": False}
    def activate(sel):
        if True:
            if sel[0] == "class":
                kind = sel[1]
                text = f"{kind}.pval > v" if kind == "Prop" else f"{kind}.meth > v"
                target_fn = func_of(ns, kind)
                want = {"mode": "class", "fn": target_fn}
            elif sel[0] == "chain":
                i, j = sel[1], sel[2]
                kind = case["pop"][j][0]
                text = f"o{i}.relay > o{j}.meth > v"
                want = {"mode": "chain", "outer": pop[i], "obj": pop[j], "recv": RECV.get(kind, "self")}
                if kind in ("EqNoHash", "L", "D") or case["pop"][i][0] == "EqNoHash":
                    info["unhashable_probed"] = True
                for o2 in pop:
                    try:
                        if (o2 is not pop[j] and o2 == pop[j]) or (o2 is not pop[i] and o2 == pop[i]):
                            info["equal_distinct"] = True
                    except Exception:
                        pass
            else:
                j = sel[1]
                kind = case["pop"][j][0]
                if sel[2] == "dotted":
                    box.holder.obj = pop[j]
                    text = "box.holder.obj.meth > v"
                elif sel[2] == "named_receiver":
                    # the selector names the receiver parameter itself, under an alias
                    text = f"o{j}.meth({RECV.get(kind, 'self')} as me) > v"
                elif sel[2] == "under_sweep":
                    text = f"sweep > o{j}.meth > v"
                else:
                    text = f"o{j}.meth > v"
                want = {"mode": "object", "obj": pop[j], "recv": RECV.get(kind, "self"), "only_under_sweep": sel[2] == "under_sweep"}
                for j2, o2 in enumerate(pop):
                    try:
                        if o2 is not pop[j] and o2 == pop[j]:
                            info["equal_distinct"] = True
                    except Exception:
                        pass
                if kind in ("EqNoHash", "L", "D"):
                    info["unhashable_probed"] = True
            out = []
            try:
                prb = probing(text, env=env)
                prb.subscribe(out.append)
                prb.__enter__()
            except Exception as ex:
                problems.append({"selector": text, "problem": f"probing/activation raised {type(ex).__name__}: {ex}", "population": case["pop"]})
                raise
            probes.append({"text": text, "want": want, "out": out, "obj": prb, "expected": [], "active": True})

    try:
        late = set(case.get("late") or ())
        for si, sel in enumerate(case["sels"]):
            if si not in late:
                activate(sel)
        for call in case["calls"]:
            if call[0] == "on":
                activate(case["sels"][call[1]])
                continue
            if call[0] == "off":
                act = [p for p in probes if p["active"]]
                if act:
                    act[-1]["obj"].__exit__(None, None, None)
                    act[-1]["active"] = False
                continue
            if call[0] == "namesake":
                r = ns["meth"](call[1])
                if r != -call[1]:
                    problems.append({"problem": f"namesake meth({call[1]}) returned {r}"})
                continue
            relayer = None
            if call[0] == "relay":
                i, j, x = call[1], call[2], call[3]
                relayer = pop[i]
                targets = [j]
                rs = [pop[i].relay(pop[j], x)]
                under = False
            elif call[0] == "sweep":
                x = call[1]
                targets = list(range(len(pop)))
                rs = ns["sweep"](pop, x)
                under = True
            else:
                j, x = call[1], call[2]
                targets = [j]
                o = pop[j]
                rs = [o.pval if case["pop"][j][0] == "Prop" else o.meth(x)]
                under = False
            for j, r in zip(targets, rs):
                kind, k = case["pop"][j]
                o = pop[j]
                ev = expected_value(kind, k, x)
                if r != ev:
                    problems.append({"problem": f"call on instance {j} ({kind}) returned {r}, expected {ev}"})
                for p in probes:
                    w = p["want"]
                    if not p["active"]:
                        continue
                    if w["mode"] == "class":
                        if func_of(ns, kind) is w["fn"]:
                            p["expected"].append((ev, None))
                    elif w["mode"] == "chain":
                        if relayer is w["outer"] and o is w["obj"]:
                            p["expected"].append((ev, id(o)))
                    else:
                        if o is w["obj"] and (under or not w.get("only_under_sweep")):
                            p["expected"].append((ev, id(o)))
        for p in probes:
            res.deciding += 1
            w = p["want"]
            got = []
            for e in p["out"]:
                if w["mode"] == "class":
                    got.append((e.get("v"), None))
                    if set(e) != {"v"}:
                        problems.append({"selector": p["text"], "problem": f"unexpected keys in event {sorted(e)}"})
                elif w["mode"] == "chain":
                    # the inner receiver is reported under its parameter's name, or under an automatic
                    # name when the outer receiver's parameter has the same name
                    hidden = [val for key, val in e.items() if key.startswith("/")]
                    rcv = e.get(w["recv"], "<missing>") if w["recv"] != "self" else (hidden[0] if hidden else "<missing>")
                    got.append((e.get("v"), id(rcv) if not isinstance(rcv, str) else rcv))
                    if e.get("self") is not w["outer"]:
                        problems.append({"selector": p["text"], "problem": "the outer receiver is not reported as self"})
                else:
                    rcv = e.get(w["recv"], "<missing>")
                    got.append((e.get("v"), id(rcv) if not isinstance(rcv, str) else rcv))
            if got != p["expected"]:
                problems.append({"selector": p["text"], "problem": "events (value, id(receiver)) differ", "expected": p["expected"], "got": got, "population": case["pop"], "probed_receiver_id": id(w.get("obj")) if w["mode"] == "object" else None})
        res.deciding += 1
        if ns["meth"].__code__ is not namesake_code or hasattr(ns["meth"], "__ptera_stack__"):
            problems.append({"problem": "module-level function named like the method was instrumented"})
    except Exception as ex:
        if not problems:
            problems.append({"problem": "exception: " + common.fmt_exc(ex)})
    finally:
        for p in reversed(probes):
            if not p["active"]:
                continue
            try:
                p["obj"].__exit__(None, None, None)
            except Exception as ex:
                problems.append({"problem": "exception at deactivation: " + common.fmt_exc(ex)})
        HandlerCollection.current.set(base)
    return problems, info


def classify(problems, info):
    t = " ".join(str(p.get("problem")) for p in problems)
    if "unhashable type" in t and info["unhashable_probed"]:
        return "receiver-equality-not-identity"
    if "events (value, id(receiver)) differ" in t and info["equal_distinct"]:
        # extra events only, all of them from receivers equal to the probed one
        for p in problems:
            if "expected" in p:
                if len(p["got"]) <= len(p["expected"]):
                    return None
        return "receiver-equality-not-identity"
    return None


def has_trigger(case):
    """Known-finding trigger: an object selector on an unhashable receiver, or a population with an
    equal-but-distinct twin of a probed object."""
    for sel in case["sels"]:
        if sel[0] != "object":
            continue
        kind, k = case["pop"][sel[1]]
        if kind in ("EqNoHash", "L", "D"):
            return True
        if kind == "Eq":
            for j2, (k2, kk2) in enumerate(case["pop"]):
                if j2 != sel[1] and kk2 == k and k2 in ("Plain", "Eq", "EqNoHash", "Sub", "Over"):
                    return True
        # Plain-family receivers compare by identity unless the OTHER side defines __eq__ (reflected)
        if kind in ("Plain", "Sub", "Over"):
            for j2, (k2, kk2) in enumerate(case["pop"]):
                if j2 != sel[1] and kk2 == k and k2 in ("Eq", "EqNoHash"):
                    return True
    return False


def check_star(ns, res):
    """obj.meth where meth has no named receiver parameter: the class form works, the object form is
    refused with a SelectorError (there is no name to report the receiver under), never an IndexError."""
    from ptera import probing
    from ptera.selector import SelectorError

    env = dict(ns)
    env["ostar"] = ns["Star"]()
    res.evaluations += 1
    res.deciding += 1
    out = []
    with probing("Star.meth > v", env=env) as p:
        p.subscribe(out.append)
        env["ostar"].meth(4)
    if out != [{"v": 8}]:
        res.violation({"star": "class"}, [{"problem": f"Star.meth > v delivered {out}"}])
    try:
        with probing("ostar.meth > v", env=env) as p:
            p.subscribe(out.append)
            env["ostar"].meth(5)
        got = out[1:]
        if got and not all(any(val is env["ostar"] for val in e.values()) for e in got):
            res.violation({"star": "object"}, [{"problem": f"ostar.meth > v was accepted but does not report the receiver: {got}"}])
    except SelectorError:
        res.count("star_method_object_selector_refused")
    except Exception as ex:
        res.violation({"star": "object"}, [{"problem": f"ostar.meth > v failed with {type(ex).__name__}: {ex} (expected a SelectorError or a working probe)"}])


SIB_SRC = """
class Box:
    def __init__(self, k):
        self.k = k
    def left(self, q):
        l = q + self.k
        return l
    def right(self, x):
        v = x * 10 + self.k
        return v

def pair(a, b, t):
    r1 = a.left(t)
    r2 = b.right(t + 1)
    return r1 + r2
"""


def check_siblings(spec, res):
    """Two receiver conditions side by side under one call: pair(t, oI.left(q), oJ.right(!v)) observes
    the binding of v exactly in the calls pair(oI, oJ, t), for every ordered pair of instances (the two
    receiver parameters are both called self)."""
    from ptera import probing

    import importlib.util

    path = os.path.join(spec["scratch"], "c13sib.py")
    with open(path, "w") as f:
        f.write(SIB_SRC)
    sp = importlib.util.spec_from_file_location("c13sib", path)
    mod = importlib.util.module_from_spec(sp)
    sp.loader.exec_module(mod)
    env = dict(vars(mod))
    objs = [mod.Box(1), mod.Box(2), mod.Box(3)]
    for n, o in enumerate(objs):
        env[f"b{n}"] = o
    combos = [(i, j) for i in range(3) for j in range(3)]
    for (i, j) in combos:
        for second in (None, combos[(combos.index((i, j)) + 4) % 9]):
            res.evaluations += 1
            res.deciding += 1
            wanted = [(i, j)] + ([second] if second else [])
            texts = [f"pair(t, b{a}.left(q), b{b}.right(!v))" for a, b in wanted]
            outs = [[] for _ in wanted]
            exps = [[] for _ in wanted]
            case = {"siblings": texts}
            try:
                ps = [probing(t, env=env) for t in texts]
                for p, o in zip(ps, outs):
                    p.subscribe(o.append)
                    p.__enter__()
                try:
                    for t in (1, 5):
                        for (a, b) in combos:
                            r = mod.pair(objs[a], objs[b], t)
                            if r != t + objs[a].k + (t + 1) * 10 + objs[b].k:
                                res.violation(case, [{"problem": f"pair(b{a}, b{b}, {t}) returned {r}"}])
                            for w, e in zip(wanted, exps):
                                if w == (a, b):
                                    e.append({"t": t, "q": t, "v": (t + 1) * 10 + objs[b].k})
                        objs[0].left(t)  # outside pair: never matches
                        objs[1].right(t)
                finally:
                    for p in reversed(ps):
                        p.__exit__(None, None, None)
            except Exception as ex:
                res.violation(case, [{"problem": "exception: " + common.fmt_exc(ex)}])
                continue
            for text, o, e in zip(texts, outs, exps):
                got = [{k: ev.get(k) for k in ("t", "q", "v")} for ev in o]
                if got != e:
                    res.violation(case, [{"selector": text, "problem": "sibling receiver conditions: events differ", "expected": e, "got": got}])
            res.count("sibling_receiver_probes", len(texts))
            res.nontrivial_case(["siblings", texts])


def run_shard(spec):
    res = ShardResult()
    known = set(spec.get("known", []))
    mech = "receiver-equality-not-identity"
    finding_stream = spec.get("finding") == mech
    s0, cnt = spec["range"]
    ns = None
    for n, i in enumerate(range(s0, s0 + cnt)):
        if ns is None or n % 40 == 0:
            ns = load(spec["scratch"], f"{s0}_{n}")
            if n == 0:
                check_star(ns, res)
                if s0 == 0:
                    check_siblings(spec, res)
        rnd = rng_for("C13", spec["seed"], i)
        case = gen_case(rnd)
        trig = has_trigger(case)
        if mech in known and not finding_stream and trig:
            res.count("skipped_known_trigger")
            continue
        if finding_stream and not trig:
            continue
        res.evaluations += 1
        problems, info = run_case(ns, case, res)
        if problems:
            ns = None
            m = classify(problems, info)
            if finding_stream and m == mech:
                res.finding(mech, {"case": case, "problems": problems[:2]})
            else:
                res.violation(case, problems[:3])
        if info["equal_distinct"] or info["unhashable_probed"]:
            res.nontrivial_case(case)
        if info["equal_distinct"]:
            res.count("cases_equal_distinct_receivers")
        if info["unhashable_probed"]:
            res.count("cases_unhashable_receiver_probed")
        if n % 300 == 0:
            res.sample(case)
    return res.as_dict()


def plan(tier, seed, known):
    n, shards = (16000, 16) if tier == "quick" else (300000, 32)
    specs = [{"range": [s, c]} for s, c in common.split_range(n, shards)]
    for mech in known:
        specs.append({"range": [10**6, 400], "finding": mech})
    return specs


def replay(case):
    res = ShardResult()
    if "siblings" in case:
        check_siblings({"scratch": common.scratch_dir("C13r")}, res)
        vs = [v for v in res.violations if v["case"].get("siblings") == case["siblings"]]
        for v in vs:
            print("PROBLEM:", str(v["why"])[:500])
        return vs
    ns = load(common.scratch_dir("C13r"), "replay")
    print("population:", case["pop"])
    print("selectors:", case["sels"])
    print("calls:", case["calls"])
    problems, info = run_case(ns, case, res)
    for p in problems:
        print("PROBLEM:", p)
    if problems:
        res.violation(case, problems[:3])
    return res.violations
