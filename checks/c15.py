"""C15 - the documented selector notations are interchangeable."""

import copy

from vlib import common, selgen as G
from vlib.common import ShardResult, rng_for

PROPERTY = "C15"
LEVEL = "exploration"
RULE = (
    "Abstract selectors (call tree of depth<=3, width<=3; operands: plain/dotted/reference function names, "
    "variables, aliases, tags, literal/symbol/call/keyword values, ~predicates, generic $x/*, meta-variables, "
    "function-position tags, wrapper !!) are produced by a systematic enumerator over operand kinds x fixed shapes "
    "plus a seeded random generator; each is rendered in every documented spelling (paren/!, >-chains, partial "
    "chains, a > (b > c) grouping, inner chains, '$x' vs '* as x', 'f() as r' and 'f(b)=c' sugar, 'f > !x') x "
    "{tight, padded, random whitespace/newlines}.  Per abstract selector the monitors check: all spellings parse "
    "to one object; its structure equals the reference desugarer's; an object built through the public "
    "constructors from that structure is the same object; the focus is the marked element; select() against a fixed environment also "
    "yields one object.  distinct_nontrivial = distinct abstract selectors with >= 3 distinct token renderings."
)
ASSUMPTIONS = [
    "The reference desugarer (vlib/selgen.py expected()) encodes my reading of docs/guide.rst; it shares no code with ptera/selector.py.",
    "In the '>' form the focus element is the last capture and the focus-path call is the last child, as in the documented examples; reorderings of captures are not claimed equivalent.",
    "A bare top-level '*' without alias is not generated (the documentation never uses it).",
    "encode() round-trips are not asserted (the statement does not mention the printed form; a capture-less call prints as a bare name).",
    "select()-level identity is only asserted for selectors whose values are '=' with a plain symbol/literal: '~' wraps the value in a fresh MatchFunction object at every resolution, and call values are re-evaluated.",
]
MECHANISMS = {
    "vkeyword-eq": "value expressions with a keyword argument (a=g(k=2)) never compare equal (VKeyword.__eq__ tests isinstance(other, VCall)), so structurally equal selectors are distinct objects",
}
MIN_DECIDING = {"quick": 20000, "thorough": 200000}
SHARD_TIMEOUT = {"quick": 600, "thorough": 3000}


def make_env():
    import types

    def f(a, b=0):
        x = a
        return x

    ns = {}
    for n in ("f", "g", "h", "k", "_p", "f2"):
        ns[n] = types.FunctionType(f.__code__, {"__name__": "c15env"}, n)
    ns["mod"] = types.SimpleNamespace(fn=ns["f"])
    ns["a"] = types.SimpleNamespace(b=types.SimpleNamespace(c=ns["g"]))

    class Cls:
        def meth(self):
            return 0

    ns["Cls"] = Cls
    ns["foo"] = 7
    ns["m"] = types.SimpleNamespace(K=11)
    return ns


def selectable(sel):
    """Whether select() can resolve every operand in make_env() deterministically."""

    def ok_val(v):
        return v is None or (v[0] == "eq" and v[1][0] == "sym")

    def walk(c):
        if "fn" not in c:
            return ok_val(c["val"])
        if c["fn"].startswith("/"):
            return False
        return all(ok_val(e["val"]) for e in c["caps"]) and all(walk(k) for k in c["kids"])

    return walk(sel)


def check_one(sel, rnd, res, env, known):
    from ptera.selector import parse, select

    haskw = G.sel_has_kw(sel)
    exp = G.expected(sel)
    objs = []
    texts = G.spellings(sel, rnd)
    case = {"abstract": sel, "spellings": [t for _, _, t in texts][:40]}
    ntok = len({st for st, _, _ in texts})
    for st, ws, text in texts:
        res.deciding += 1
        try:
            o = parse(text)
            o2 = parse(text)
        except Exception as e:
            res.violation(dict(case, text=text), f"spelling {st}/{ws} {text!r} does not parse: {type(e).__name__}: {e}")
            return
        got = G.struct_of(o)
        if got != exp:
            res.violation(dict(case, text=text), {"what": "structure differs from reference desugaring", "text": text, "expected": exp, "got": got})
            return
        if o is not o2:
            if haskw:
                res.finding("vkeyword-eq", dict(case, text=text))
                return
            res.violation(dict(case, text=text), f"parse({text!r}) is not parse({text!r})")
            return
        objs.append((st, ws, text, o))
    first = objs[0][3]
    for st, ws, text, o in objs[1:]:
        if o is not first:
            if haskw:
                res.finding("vkeyword-eq", dict(case, text=text))
                return
            res.violation(dict(case, a=objs[0][2], b=text), f"parse({objs[0][2]!r}) is not parse({text!r}) although structures are equal")
            return
    # structural equality => identity, through the constructors
    res.deciding += 1
    built = G.build_with_constructors(exp)
    if built is not first:
        if haskw:
            res.finding("vkeyword-eq", case)
            return
        res.violation(case, "object built with Element()/Call() from the same structure is a different object")
        return
    # focus
    res.deciding += 1
    ef = G.expected_focus(sel)
    main = first.main
    ntag1 = _count_focus(first)
    if ef is None:
        if main is not None or ntag1 != 0 or first.focus:
            res.violation(case, f"focus-free selector reports focus {main}")
    else:
        if main is None or main.capture != ef[0] or main.name != ef[1] or ntag1 != 1 or not first.focus:
            res.violation(case, f"focus should be {ef}, selector reports {main} ({ntag1} focus marks)")
    # select() level
    if "fn" in sel and selectable(sel):
        sobjs = []
        for st, ws, text, o in objs[:: max(1, len(objs) // 6)]:
            res.deciding += 1
            try:
                sobjs.append((text, select(text, env=env)))
            except Exception as e:
                res.violation(dict(case, text=text), f"select({text!r}) raised {type(e).__name__}: {e}")
                return
        for text, so in sobjs[1:]:
            if so is not sobjs[0][1]:
                res.violation(dict(case, a=sobjs[0][0], b=text), "select() of two spellings gives different objects")
                return
        res.count("select_level")
    if ntok >= 3:
        res.nontrivial_case(sel)
    res.count("spellings", len(texts))


def _count_focus(o):
    from ptera.selector import Call

    if isinstance(o, Call):
        return sum(_count_focus(x) for x in o.captures + o.children)
    return 1 if 1 in o.tags else 0


def _plain_values(sel):
    def okv(v):
        return v is None or (v[0] == "eq" and v[1][0] == "sym" and not v[1][1].startswith("'"))

    if "fn" not in sel:
        return okv(sel["val"])
    return all(okv(e["val"]) for e in sel["caps"]) and all(_plain_values(k) for k in sel["kids"])


def cases_for(spec):
    """Yield (index, abstract selector)."""
    if spec["part"] == "enum":
        allsel = G.enum_small()
        s, c = spec["range"]
        for i in range(s, min(s + c, len(allsel))):
            yield i, allsel[i]
    else:
        s, c = spec["range"]
        depth = spec.get("depth", 2)
        for i in range(s, s + c):
            rnd = rng_for("C15", spec["seed"], i)
            yield i, G.rand_selector(rnd, depth=depth, width=3)


def run_shard(spec):
    res = ShardResult()
    env = make_env()
    known = set(spec.get("known", []))
    for i, sel in cases_for(spec):
        if "fn" not in sel and sel["name"] is None and sel["alias"] is None:
            continue
        if "vkeyword-eq" in known and G.sel_has_kw(sel) and not spec.get("finding_stream"):
            res.count("skipped_known_trigger")
            continue
        if spec.get("finding_stream") and not G.sel_has_kw(sel):
            continue
        rnd = rng_for("C15ws", spec["seed"], spec["part"], i)
        res.evaluations += 1
        check_one(sel, rnd, res, env, known)
        if i % 997 == 0:
            res.sample({"abstract": sel, "spellings": [t for _, _, t in G.spellings(sel, rnd)][:6]})
    return res.as_dict()


def plan(tier, seed, known):
    specs = []
    n_enum = len(G.enum_small())
    for s, c in common.split_range(n_enum, 4):
        specs.append({"part": "enum", "range": [s, c]})
    n = 6000 if tier == "quick" else 150000
    for s, c in common.split_range(n, 12 if tier == "quick" else 48):
        specs.append({"part": "rand", "range": [s, c], "depth": 2 if tier == "quick" else 3})
    if "vkeyword-eq" in known:
        specs.append({"part": "enum", "range": [0, n_enum], "finding_stream": True})
    return specs


def replay(case):
    import random

    res = ShardResult()
    sel = case["abstract"]
    print("abstract:", sel)
    for t in case.get("spellings", [])[:12]:
        print("  spelling:", repr(t))
    check_one(copy.deepcopy(sel), random.Random(0), res, make_env(), set())
    for m, d in res.findings.items():
        res.violation(d["example"], f"mechanism {m}")
    return res.violations
