"""C18 - malformed selectors are rejected with a syntax or selector error."""

import itertools
import types

from vlib import common, selgen as G
from vlib.common import ShardResult, rng_for

PROPERTY = "C18"
LEVEL = "exploration"
RULE = (
    "Part X (exhaustive): every concatenation of <= L tokens (L=4 quick, L=5 thorough) from a 37-token alphabet covering every operator, bracket, word class, quote and illegal "
    "characters, compiled with parse() and - for every string of <=3 tokens and a deterministic 1/8 (quick) or 1/1 (thorough; 1/64 at L=5) slice of the longer ones - select() against a fixed "
    "environment.  Part M: token-level mutations (delete/duplicate/swap/insert/replace, bracket unbalancing, operator "
    "in operand position) of valid selectors from the C15 generator, through parse(), select() and probing().  "
    "Part S: templates of semantically bad selectors x operand variants must be refused at probe creation or "
    "activation.  Oracle: outcome class in {selector, SyntaxError with offset, SelectorError, the documented "
    "TypeError}; termination decided by a logical step bound on the precedence comparator (<= 8*tokens+8). "
    "distinct_nontrivial = distinct input strings whose outcome is an error class (i.e. strings that are actually malformed)."
)
ASSUMPTIONS = [
    "CodeNotFoundError (documented and unit-tested outcome for an absolute reference '/m/f' that does not resolve) is accepted from select()/probing() alongside SelectorError; it is never accepted from parse().",
    "A TypeError raised by the call inside VCall.eval itself (the selector's value expression calls an environment object with the wrong arity, or a non-callable such as an int or a Tag) is the evaluated expression's failure and is accepted; every other exception from value evaluation is ptera's own.",
    "probing() may additionally refuse with ValueError('Unsupported focus pattern ...') (unit-tested refusal of '!!' without '!').",
    "For Part S 'refused' means any exception at probing(...) construction or __enter__; the statement does not fix its class.",
    "Termination is decided on a logical step counter, not on wall-clock; the worker watchdog firing is inconclusive.",
    "parse() returning something that is not a Selector (a Python list for a top-level comma) is counted as not returning a selector.",
]
MECHANISMS = {}
MIN_DECIDING = {"quick": 1000000, "thorough": 20000000}
SHARD_TIMEOUT = {"quick": 900, "thorough": 7200}
EXHAUSTIVE = {}

CORE = ["(", ")", ",", ">", ":", "=", "~", "!", "!!", "$", " as ", "f", "x", "#value", "@T", "*", "1", "'s'", "[", "]", "%", " "]
EXTRA = ["{", "}", "[[", "]]", ">>", "#foo", "a.b", "/m/f", "'", "&", '"', ";", ".", "-", "1."]
ALPHABET = CORE + EXTRA

DOC_TYPEERROR = "A selector's category can only be a Tag."


class StepLimit(Exception):
    pass


class Steps:
    """Monitor on opparse.OperatorPrecedenceTower.__call__: counts precedence comparisons."""

    def __init__(self):
        from ptera import opparse

        self.n = 0
        self.limit = 1 << 30
        self.maxratio = 0.0
        cls = opparse.OperatorPrecedenceTower
        orig = cls.__call__
        mon = self

        def counted(tower, a, b):
            mon.n += 1
            if mon.n > mon.limit:
                raise StepLimit(mon.n)
            return orig(tower, a, b)

        cls.__call__ = counted

    def begin(self, text):
        self.n = 0
        # tokens <= characters
        self.limit = 8 * len(text) + 8


def make_env():
    def f(x):
        y = x
        return y

    ns = {"__name__": "c18env"}
    fn = types.FunctionType(f.__code__, ns, "f")
    ns["f"] = fn
    ns["x"] = 5

    class NS:  # hashable, callable, total
        def __call__(self, *a, **k):
            return 0

    ns["a"] = NS()
    ns["a"].b = fn
    ns["UNHASH"] = [1, 2]  # a value that cannot be hashed (selectors are interned by value)
    ns["NUM1"] = 1
    return ns


def _raised_by_value_call(e):
    tb = e.__traceback__
    last = None
    while tb is not None:
        last = tb
        tb = tb.tb_next
    if last is None:
        return False
    co = last.tb_frame.f_code
    return co.co_name == "eval" and co.co_filename.endswith("selector.py")


def classify(fn, text, steps):
    """Run fn(text); return (class, detail)."""
    from ptera.selector import Selector, SelectorError
    from ptera.utils import CodeNotFoundError

    steps.begin(text)
    try:
        r = fn(text)
    except SyntaxError as e:
        if getattr(e, "offset", None) is None:
            return "bad:SyntaxError-without-offset", repr(e)
        return "SyntaxError", None
    except SelectorError:
        return "SelectorError", None
    except CodeNotFoundError:
        return "CodeNotFoundError", None
    except TypeError as e:
        if str(e) == DOC_TYPEERROR:
            return "TypeError-doc", None
        if _raised_by_value_call(e):
            # the selector's value expression called an object of the environment that is not
            # callable that way (x() with x an int, f() with a missing argument, @T()): the
            # failure is the evaluated expression's, not the compiler's
            return "value-call-TypeError", None
        return "bad:TypeError", repr(e)
    except ValueError as e:
        # probe construction refuses a second-focus mark without a first this way (tests/test_probe.py)
        if str(e).startswith("Unsupported focus pattern"):
            return "ValueError-focus-pattern", None
        return "bad:ValueError", repr(e)
    except StepLimit as e:
        return "bad:step-bound-exceeded", repr(e)
    except RecursionError as e:
        return "bad:RecursionError", ""
    except BaseException as e:
        return "bad:" + type(e).__name__, repr(e)[:300]
    if isinstance(r, Selector):
        return "selector", None
    return "bad:returned-" + type(r).__name__, repr(r)[:200]


def run_strings(strings, res, steps, env, do_select, part):
    from ptera.selector import parse, select

    sel = lambda s: select(s, env=env)  # noqa: E731
    for text, want_select in strings:
        res.evaluations += 1
        for name, fn in (("parse", parse),) + ((("select", sel),) if want_select else ()):
            cls, detail = classify(fn, text, steps)
            res.deciding += 1
            res.count(f"{name}:{cls}")
            if name == "parse" and cls == "CodeNotFoundError":
                cls, detail = "bad:CodeNotFoundError-from-parse", ""
            if cls.startswith("bad:"):
                res.violation({"part": part, "text": text, "api": name}, f"{name}({text!r}) -> {cls[4:]} {detail}")
            elif cls != "selector" and name == "parse":
                res.nontrivial_case(text)
            if steps.n and len(text):
                res.counters["max_steps"] = max(res.counters.get("max_steps", 0), steps.n)


def mutate(rnd, toks):
    toks = list(toks)
    ops = [("o", o) for o in "( ) , > : = ~ ! !! $ [ ] { }".split()] + [("as",), ("w", "%"), ("w", "'"), ("w", "x"), ("w", "#foo"), ("w", "@T"), ("w", "*")]
    for _ in range(rnd.choice([1, 1, 1, 2, 3])):
        k = rnd.randrange(7)
        if not toks:
            toks.append(rnd.choice(ops))
            continue
        i = rnd.randrange(len(toks))
        if k == 0:
            del toks[i]
        elif k == 1:
            toks.insert(i, toks[i])
        elif k == 2 and len(toks) > 1:
            j = rnd.randrange(len(toks))
            toks[i], toks[j] = toks[j], toks[i]
        elif k == 3:
            toks.insert(i, rnd.choice(ops))
        elif k == 4:
            toks[i] = rnd.choice(ops)
        elif k == 5:
            # unbalance: drop a bracket
            idx = [n for n, t in enumerate(toks) if t in (("o", "("), ("o", ")"))]
            if idx:
                del toks[rnd.choice(idx)]
        else:
            # truncate
            toks = toks[: max(1, i)]
    return toks


BAD_TEMPLATES = [
    # (template, kwargs for probing, description)
    ("{fn} > #foo", {}, "unknown meta-variable"),
    ("{fn}({ctx}) > #bar", {}, "unknown meta-variable"),
    ("{fn}(#enterr) > {v}", {}, "unknown meta-variable as context"),
    ("{fn}(!#value_) ", {}, "unknown meta-variable"),
    ("{fn} > #value.real", {}, "unknown (dotted) meta-variable"),
    ("{fn} > #loop_zz", {}, "loop meta-variable for something that is not a loop variable of the function"),
    ("{fn}({ctx}) > #endloop_x", {}, "loop meta-variable for something that is not a loop variable of the function"),
    ("{fn}(#loop_y) > {v}", {}, "loop meta-variable for something that is not a loop variable of the function"),
    ("{fn}({ctx}) > #exit.done", {}, "unknown (dotted) meta-variable"),
    ("{fn}(#error.args) > {v}", {}, "unknown (dotted) meta-variable as context"),
    ("{fn} > {v}:x", {}, "category that is not a tag"),
    ("{fn} > $z:f", {}, "category that is not a tag"),
    ("{fn}({ctx}:x) > {v}", {}, "category that is not a tag"),
    ("nofn > {v}", {}, "unresolvable function"),
    ("{fn} > nofn2 > {v}", {}, "unresolvable function"),
    ("a.nope > {v}", {}, "unresolvable function (dotted)"),
    ("nope.b > {v}", {}, "unresolvable function (dotted)"),
    ("/c18env/nofn > {v}", {}, "unresolvable reference"),
    ("/sys/exit > {v}", {}, "unresolvable reference (built-in module without a file)"),
    ("{fn} > {v}:@__x", {}, "tag name that the tag factory refuses"),
    ("{fn}({ctx}:@__) > {v}", {}, "tag name that the tag factory refuses"),
    ("/./f > {v}", {}, "unresolvable reference (module '.')"),
    ("/.. > {v}", {}, "unresolvable reference (module '..')"),
    ("/../f > {v}", {}, "unresolvable reference (module '..')"),
    ("{fn}(x~NUM1) > {v}", {}, "condition that is not a function"),
    ("{fn}({ctx}, x~UNHASH) > {v}", {}, "condition that is not a function"),
    ("{fn}(!!{v})", {}, "second focus without first"),
    ("{fn}({ctx}, !!{v})", {}, "second focus without first"),
    ("{fn} > f(!!{v})", {}, "second focus without first, inside a nested call"),
    ("{fn}(f(!!{v}))", {}, "second focus without first, inside a nested call"),
    ("{fn}(x, f({ctx}, !!{v}))", {}, "second focus without first, inside a nested call"),
    ("{fn} > f > f(!!{v})", {}, "second focus without first, two levels down"),
    ("/ > {v}", {}, "unresolvable reference (empty path)"),
    ("{fn}({v})", {"overridable": True}, "no focus where overriding requires one"),
    ("{fn}({ctx}, {v})", {"overridable": True}, "no focus where overriding requires one"),
    ("{fn}({v})", {"overridable": True, "probe_type": "immediate"}, "no focus where overriding requires one (immediate type given explicitly)"),
    ("{fn}({ctx}, {v})", {"overridable": True, "probe_type": "immediate"}, "no focus where overriding requires one (immediate type given explicitly)"),
    ("{fn} > nosuchvar", {}, "variable that occurs nowhere in the function"),
    ("{fn}(nosuchvar) > {v}", {}, "variable that occurs nowhere in the function"),
    ("* > {v}", {}, "wildcard function"),
]


def part_s(spec, res, steps):
    from ptera import probing

    n = 0
    def attempt(text, kw, what, prelude):
        nonlocal n
        env = make_env()
        res.evaluations += 1
        res.deciding += 1
        n += 1
        prb = None
        refused = None
        if prelude:
            # the refusal must not depend on what was attempted before on the same selector
            # (same text, same functions => same interned selector objects)
            for pkw in ({"overridable": True}, {"probe_type": "total"}, {"overridable": True, "probe_type": "immediate"}, {"raw": True}, {}):
                if pkw == kw:
                    continue
                try:
                    steps.begin(text)
                    q = probing(text, env=env, **pkw)
                    q.__enter__()
                    q.__exit__(None, None, None)
                except BaseException as e:
                    if type(e).__name__ in ("AssertionError", "IndexError", "AttributeError", "KeyError", "RecursionError", "StepLimit"):
                        res.violation({"part": "S", "text": text, "kwargs": pkw}, f"{what}: probing({text!r}, {pkw}) failed with internal error {type(e).__name__}: {e}")
                res.count("S_prelude_attempts")
        try:
            steps.begin(text)
            prb = probing(text, env=env, **kw)
            prb.__enter__()
        except BaseException as e:
            refused = type(e).__name__
        if refused is None:
            # a live probe: does it ever match?  record what it delivers for the witness
            got = []
            try:
                prb.subscribe(got.append)
                env["f"](3)
                prb.__exit__(None, None, None)
            except BaseException as e:  # pragma: no cover
                got.append(repr(e))
            res.violation({"part": "S", "text": text, "kwargs": kw, "after_other_attempts_on_the_same_selector": prelude}, f"{what}: probing({text!r}, {kw}) was created and activated (events seen: {got[:3]})")
        else:
            res.count(f"S_refused:{refused}")
            res.nontrivial_case("S:" + text + repr(kw))
            if refused in ("AssertionError", "IndexError", "AttributeError", "KeyError", "RecursionError", "StepLimit"):
                res.violation({"part": "S", "text": text, "kwargs": kw}, f"{what}: refused with internal error {refused}")

    for tpl, kw, what in BAD_TEMPLATES:
        for fn in ("f", "a.b"):
            for v in ("y", "x", "#value", "#enter"):
                for ctx in ("x", "y as q", "#enter"):
                    if "{ctx}" not in tpl and ctx != "x":
                        continue
                    if "{fn}" not in tpl and fn != "f":
                        continue
                    if "{v}" not in tpl and v != "y":
                        continue
                    text = tpl.format(fn=fn, v=v, ctx=ctx)
                    for prelude in (False, True):
                        attempt(text, kw, what, prelude)
    # a value that cannot be hashed is a legitimate right-hand side of `=`
    env = make_env()
    res.evaluations += 1
    res.deciding += 1
    got = []
    try:
        steps.begin("f(x=UNHASH) > y")
        with probing("f(x=UNHASH) > y", env=env) as prb:
            prb.subscribe(got.append)
            env["f"]([1, 2])
            env["f"](3)
        if got != [{"x": [1, 2], "y": [1, 2]}]:
            res.violation({"part": "S", "text": "f(x=UNHASH) > y"}, f"equality with an unhashable value: events {got}")
    except BaseException as e:
        res.violation({"part": "S", "text": "f(x=UNHASH) > y"}, f"equality with an unhashable value: {type(e).__name__}: {e}")
    res.sample({"part": "S", "templates": len(BAD_TEMPLATES), "instances": n})


def run_shard(spec):
    res = ShardResult()
    steps = Steps()
    env = make_env()
    part = spec["part"]
    if part == "X":
        L = spec["len"]
        alpha = ALPHABET if spec["alpha"] == "full" else CORE
        firsts = spec["firsts"]
        sel_mod = spec["select_mod"]

        def gen():
            n = 0
            for first in firsts:
                for rest in itertools.product(alpha, repeat=L - 1):
                    n += 1
                    yield alpha[first] + "".join(rest), (n % sel_mod == 0)

        run_strings(gen(), res, steps, env, True, "X")
        res.sample({"part": "X", "len": L, "alphabet": len(alpha), "example": alpha[firsts[0]] + "".join(alpha[:L - 1])})
    elif part == "M":
        from ptera import probing

        s, c = spec["range"]
        for i in range(s, s + c):
            rnd = rng_for("C18M", spec["seed"], i)
            sel = G.rand_selector(rnd, depth=2, width=3)
            toks = G.render_tokens(sel, rnd.choice(G.STYLES))
            mt = mutate(rnd, toks)
            text = G.join_tokens(mt, rnd, mode=rnd.choice(["tight", "padded", "random"]))
            run_strings([(text, True)], res, steps, env, True, "M")
            # probing() on the same text
            cls, detail = classify(lambda t: probing(t, env=env)._selectors[0], text, steps)
            res.deciding += 1
            res.count(f"probing:{cls}")
            if cls.startswith("bad:"):
                res.violation({"part": "M", "text": text, "api": "probing"}, f"probing({text!r}) -> {cls[4:]} {detail}")
            if i % 2000 == 0:
                res.sample({"part": "M", "valid": G.join_tokens(toks), "mutated": text})
    elif part == "S":
        part_s(spec, res, steps)
    return res.as_dict()


def plan(tier, seed, known):
    specs = []

    def xspecs(L, alpha, shards, select_mod):
        n = len(ALPHABET if alpha == "full" else CORE)
        for s, c in common.split_range(n, shards):
            specs.append({"part": "X", "len": L, "alpha": alpha, "firsts": list(range(s, s + c)), "select_mod": select_mod})

    if tier == "quick":
        for L in (1, 2):
            xspecs(L, "full", 1, 1)
        xspecs(3, "full", 4, 1)
        xspecs(4, "full", 34, 8)
        nm = 30000
    else:
        for L in (1, 2):
            xspecs(L, "full", 1, 1)
        xspecs(3, "full", 4, 1)
        xspecs(4, "full", 34, 1)
        xspecs(5, "full", 34, 64)
        nm = 400000
    for s, c in common.split_range(nm, 12 if tier == "quick" else 32):
        specs.append({"part": "M", "range": [s, c]})
    specs.append({"part": "S"})
    return specs


def replay(case):
    res = ShardResult()
    steps = Steps()
    env = make_env()
    print("input:", repr(case.get("text")), "api:", case.get("api"))
    if case.get("part") == "S":
        part_s({}, res, steps)
        res.violations = [v for v in res.violations if v["case"]["text"] == case["text"]]
    else:
        from ptera import probing

        run_strings([(case["text"], True)], res, steps, env, True, case.get("part", "X"))
        cls, detail = classify(lambda t: probing(t, env=env)._selectors[0], case["text"], steps)
        if cls.startswith("bad:"):
            res.violation(case, f"probing -> {cls} {detail}")
    return res.violations
