"""C11 - tag selectors capture exactly the bindings that carry the tag."""

import itertools

from vlib import common, progen, prorun, streams
from vlib.common import ShardResult, rng_for

PROPERTY = "C11"
LEVEL = "exploration"
RULE = (
    "A case = (generated function with a random assignment of tag sets of size 0-3 over {A,B,C,D} - string form "
    "'@A & @B' and object form tag.A & tag.B, with repeated and permuted members - to its parameters and annotated "
    "assignments, incl. variables annotated once and re-assigned without annotation and variables annotated at several "
    "sites; input; tag selector).  The hooked twin records, for each binding, the tag set of that binding's OWN "
    "annotation.  Monitors: probing('f > $x:@T', raw=True) mapped to (capture.name, value) == the twin's bindings "
    "whose own annotation contains T (refused with SelectorError when T appears nowhere in f); 'f(!*:@T)' likewise; "
    "'f > v:@T' == the subset named v; unrestricted '$x' == every variable binding of the twin in order (meta and "
    "global/builtin names ignored); an InteractLog monitor requires that while only tag selectors are active every "
    "interact() call carries a category containing T.  A family of functions with return annotations checks that "
    "'g:@T > y' fires iff g's return annotation carries T.  Part A (exhaustive): TagSet algebra over all subsets of a "
    "4-letter alphabet x permutations x repetitions: equality, matching and get_tags are order- and "
    "repetition-invariant.  non-trivial = the function has >= 1 binding with the tag and >= 1 binding of a variable "
    "without it; distinct = distinct (program, input, tag)."
)
ASSUMPTIONS = [
    "A binding 'carries' T when the annotation written at that binding site contains T; a later un-annotated re-assignment of the same variable does not carry it.",
    "Return-annotation tags are written in object form (tag.A); the string form is only documented for variables.",
    "Events of meta-variables and of global/builtin names under an unrestricted $x are ignored either way.",
]
MECHANISMS = {}
MIN_DECIDING = {"quick": 8000, "thorough": 150000}
SHARD_TIMEOUT = {"quick": 1200, "thorough": 7200}

ALPHA = ["A", "B", "C", "D"]

RET_SRC = '''
from ptera import tag
def g0(x):
    y = x + 1
    return y
def g1(x) -> tag.A:
    y = x + 2
    return y
def g2(x) -> tag.A & tag.B:
    y = x + 3
    return y
def g3(x) -> tag.C & tag.A & tag.C:
    y = x + 4
    return y
def g4(x) -> int:
    y = x + 5
    return y
def g8(x) -> "@B":
    y = x + 8
    return y
def g9(x) -> "@D & @A & @D":
    y = x + 9
    return y
def _mk():
    k6, k7 = 6, 7
    def g6(x) -> tag.B:
        y = x + k6
        return y
    def g7(x, *, kw=1) -> tag.D & tag.A:
        y = x + k7 + kw - 1
        return y
    return g6, g7
g6, g7 = _mk()
'''
RET_Y = {"g0": 11, "g1": 12, "g2": 13, "g3": 14, "g4": 15, "g6": 16, "g7": 17, "g8": 18, "g9": 19}
RET_TAGS = {"g0": [], "g1": ["A"], "g2": ["A", "B"], "g3": ["A", "C"], "g4": [], "g6": ["B"], "g7": ["A", "D"], "g8": ["B"], "g9": ["A", "D"]}


def part_a(res):
    from ptera.tags import Tag, TagSet, get_tags, match_tag, tag

    for r in range(0, 5):
        for sub in itertools.combinations(ALPHA, r):
            for perm in itertools.permutations(sub):
                for rep in range(0, 2):
                    members = list(perm) + (list(perm[:1]) if rep else [])
                    if not members:
                        continue
                    res.evaluations += 1
                    objs = [getattr(tag, m) for m in members]
                    built = objs[0]
                    for o in objs[1:]:
                        built = built & o
                    canon = None
                    for o in [getattr(tag, m) for m in sorted(sub)]:
                        canon = o if canon is None else canon & o
                    gt = get_tags(*members)
                    for T in ALPHA:
                        res.deciding += 1
                        want = T in sub
                        for obj, how in ((built, "&"), (gt, "get_tags")):
                            got = match_tag(getattr(tag, T), obj)
                            if bool(got) != want:
                                res.violation({"part": "A", "members": members, "tag": T, "how": how}, f"match_tag(tag.{T}, {how} of {members}) = {got}, expected {want}")
                    if len(set(members)) > 1:
                        res.deciding += 1
                        if not (isinstance(built, TagSet) and built == canon and canon == built and gt == canon):
                            res.violation({"part": "A", "members": members}, f"tag set built from {members} != set built from {sorted(sub)}")
                        res.nontrivial_case(["A", members])
                    elif len(set(members)) == 1 and len(members) == 1:
                        res.deciding += 1
                        if built is not getattr(tag, members[0]) or gt is not built:
                            res.violation({"part": "A", "members": members}, "single tag is not the interned Tag object")


class InteractLog:
    def __init__(self):
        from ptera.interpret import Interactor

        self.calls = []
        orig = Interactor.interact
        mon = self

        def interact(itor, varname, key, category, value, overridable):
            mon.calls.append((varname, category))
            return orig(itor, varname, key, category, value, overridable)

        Interactor.interact = interact


def check_program(m, mod, rnd, res, case_base, ilog):
    from ptera import probing
    from ptera.selector import SelectorError
    from ptera.tags import match_tag, tag

    ns = vars(mod)
    names = set(m["names"])
    all_tags_in_f = {t for sets in m["anns"].values() for s in sets for t in s}
    for argi in range(min(2, m["nargs"])):
        tw, tw_out = streams.twin_events(mod, m, argi)
        tagged = [(n, v, t) for (fn, n, v, t) in mod.TAGGED if fn == "f"]
        tv = [(n, v) for (k, n, v) in tw if k == "var"]
        for T in ALPHA:
            exp = [(n, v) for (n, v, t) in tagged if T in t]
            case = dict(case_base, argi=argi, tag=T)
            for form, sel in (("dollar", f"f > $x:@{T}"), ("star", f"f(!*:@{T})"), ("dollar-with-neighbour", f"f > $x:@{T}")):
                res.evaluations += 1
                res.deciding += 1
                got = []
                ilog.calls = []
                try:
                    import contextlib

                    with contextlib.ExitStack() as stack:
                        if form == "dollar-with-neighbour":
                            # another probe instruments every binding of f at the same time: the tag
                            # selector must still capture the tagged bindings only
                            stack.enter_context(probing("f > $w", env=ns, raw=True))
                        prb = stack.enter_context(probing(sel, env=ns, raw=True))
                        prb.subscribe(lambda d: got.extend((c.name, prorun.norm(c.value)) for c in d.values()))
                        out = prorun.run_call(mod, mod.f, argi, m["script"])
                except SelectorError as e:
                    if T in all_tags_in_f:
                        res.violation(dict(case, selector=sel), {"what": "tag selector refused although a binding of f carries the tag", "error": str(e)[:300]})
                    else:
                        res.count("refused_tag_nowhere")
                    continue
                except Exception as e:
                    res.violation(dict(case, selector=sel), {"what": "exception", "error": common.fmt_exc(e)[-1200:]})
                    continue
                if T not in all_tags_in_f:
                    res.violation(dict(case, selector=sel), {"what": "selector on a tag that appears nowhere in f was accepted"})
                    continue
                d = [x for x in prorun.same_outcome(tw_out, out) if x != "cells"]
                if d:
                    res.violation(dict(case, selector=sel), {"what": "probed call differs from twin", "diff": prorun.describe_diff(tw_out, out, d)})
                    continue
                if got != exp:
                    res.violation(dict(case, selector=sel), {"what": "tag selector stream differs from the tagged bindings", **streams.first_diff(exp, got)})
                # only the selected bindings are instrumented
                res.deciding += 1
                bad = [(vn, repr(cat)) for vn, cat in ilog.calls if not match_tag(getattr(tag, T), cat)]
                if bad and form != "dollar-with-neighbour":
                    res.violation(dict(case, selector=sel), {"what": "bindings without the tag were routed through interact()", "extra": bad[:6]})
                if exp and any(n2 not in {n for n, _ in exp} for n2, _ in tv):
                    res.nontrivial_case([m["src"], argi, T, form])
                res.count("tagged_events", len(exp))
            # named capture with tag
            cands = sorted({n for (n, v, t) in tagged if T in t})
            static = {n for n, sets in m["anns"].items() if any(T in st for st in sets)}
            others = sorted(n for n in streams.body_names(m) if n not in static)
            for v in cands[:2]:
                res.evaluations += 1
                res.deciding += 1
                got = []
                try:
                    with probing(f"f > {v}:@{T}", env=ns, raw=True) as prb:
                        prb.subscribe(lambda d: got.extend((c.name, prorun.norm(c.value)) for c in d.values()))
                        prorun.run_call(mod, mod.f, argi, m["script"])
                except Exception as e:
                    res.violation(dict(case, selector=f"f > {v}:@{T}"), {"what": "exception", "error": common.fmt_exc(e)[-1200:]})
                    continue
                e2 = [(n, val) for (n, val) in exp if n == v]
                if got != e2:
                    res.violation(dict(case, selector=f"f > {v}:@{T}"), {"what": "named tag capture stream differs", **streams.first_diff(e2, got)})
            for v in others[:1]:
                res.evaluations += 1
                res.deciding += 1
                err = None
                try:
                    with probing(f"f > {v}:@{T}", env=ns, raw=True):
                        pass
                except Exception as e:
                    err = e
                if not isinstance(err, SelectorError):
                    res.violation(dict(case, selector=f"f > {v}:@{T}"), {"what": "named capture whose variable never carries the tag was not refused with SelectorError", "got": repr(err)})
        # unrestricted generic
        res.evaluations += 1
        res.deciding += 1
        got = []
        try:
            with probing("f > $x", env=ns, raw=True) as prb:
                prb.subscribe(lambda d: got.extend((c.name, prorun.norm(c.value)) for c in d.values()))
                prorun.run_call(mod, mod.f, argi, m["script"])
        except Exception as e:
            res.violation(dict(case_base, argi=argi, selector="f > $x"), {"what": "exception", "error": common.fmt_exc(e)[-1200:]})
            continue
        body = set(streams.body_names(m))
        g2 = streams.sort_runs([(n, v) for n, v in got if n in body], set(m["params"]))
        e2 = streams.sort_runs([(n, v) for n, v in tv if n in body], set(m["params"]))
        if g2 != e2:
            res.violation(dict(case_base, argi=argi, selector="f > $x"), {"what": "unrestricted generic capture does not see every variable binding", **streams.first_diff(e2, g2)})


def check_return_tags(scratch, res, tag_):
    from ptera import probing

    mod = prorun.load_src(RET_SRC, scratch, f"c11ret_{tag_}")
    ns = vars(mod)
    for g, tags in RET_TAGS.items():
        for T in ALPHA:
            res.evaluations += 1
            res.deciding += 1
            got = []
            err = None
            try:
                with probing(f"{g}:@{T} > y", env=ns) as prb:
                    prb.subscribe(got.append)
                    for other in RET_TAGS:
                        ns[other](10)
            except Exception as e:
                err = e
            want = [{"y": RET_Y[g]}] if T in tags else []
            if T in tags:
                if err is not None or got != want:
                    res.violation({"ret": g, "tag": T}, f"{g}:@{T} > y: expected {want}, got {got} err={err!r}")
            else:
                # either refused, or accepted and silent: it must not fire
                if got:
                    res.violation({"ret": g, "tag": T}, f"{g}:@{T} > y fired although {g}'s return annotation lacks the tag: {got}")
            res.count("return_tag_checks")
    # the same through tooled() copies (new function objects; closures are rebuilt) and raw overlays
    from ptera import tooled
    from ptera.interpret import Immediate
    from ptera.overlay import BaseOverlay
    from ptera.selector import select

    tns = dict(ns)
    for g in RET_TAGS:
        tns[g] = tooled(ns[g])
    for g, tags in RET_TAGS.items():
        for T in ALPHA:
            res.evaluations += 1
            res.deciding += 1
            got = []
            try:
                so = select(f"{g}:@{T} > y", env=tns)
                with BaseOverlay(Immediate(so, trigger=lambda d: got.append({k: c.value for k, c in d.items()}))):
                    for other in RET_TAGS:
                        r = tns[other](10)
                        if r != ns[other](10):
                            res.violation({"ret": other, "tooled": True}, f"tooled {other}(10) returned {r}")
            except Exception as e:
                res.violation({"ret": g, "tag": T, "tooled": True}, f"tooled {g}:@{T} > y raised {type(e).__name__}: {e}")
                continue
            want = [{"y": RET_Y[g]}] if T in tags else []
            if got != want:
                res.violation({"ret": g, "tag": T, "tooled": True}, f"tooled {g}:@{T} > y: expected {want}, got {got}")
            res.count("return_tag_checks_tooled")


SAME_NAME_SRC = """
from ptera import tag
class Heater:
    def step(self, power: tag.A, gain: tag.B = 2):
        temp: tag.A = power + 20 + gain
        return temp
class Cooler:
    def step(self, power: tag.B, loss: tag.A = 3):
        temp: tag.B = power - loss
        return temp
"""


def check_same_named_functions(scratch, res):
    """Two functions of one module with the same name and different tag layouts, probed one after
    the other, again, and together: each tag selector captures the tagged bindings of ITS function."""
    from ptera import probing

    mod = prorun.load_src(SAME_NAME_SRC, scratch, "c11same")
    ns = vars(mod)
    want = {
        ("Heater", "A"): [("power", 1), ("temp", 23)], ("Heater", "B"): [("gain", 2)],
        ("Cooler", "A"): [("loss", 3)], ("Cooler", "B"): [("power", 1), ("temp", -2)],
    }

    def run(specs):
        import contextlib

        outs = {}
        with contextlib.ExitStack() as stack:
            for cls, T in specs:
                got = outs[(cls, T)] = []
                prb = stack.enter_context(probing(f"{cls}.step > $v:@{T}", env=ns, raw=True))
                prb.subscribe(lambda d, got=got: got.extend((c.name, c.value) for c in d.values()))
            mod.Heater().step(1)
            mod.Cooler().step(1)
        return outs

    plans = [[("Heater", "A")], [("Cooler", "A")], [("Heater", "A")], [("Heater", "B")], [("Cooler", "B")], [("Heater", "A"), ("Cooler", "A")], [("Cooler", "B"), ("Heater", "B")], [("Heater", "A")]]
    for k, specs in enumerate(plans):
        res.evaluations += 1
        res.deciding += 1
        try:
            outs = run(specs)
        except Exception as e:
            res.violation({"same_named": k, "specs": specs}, "exception: " + common.fmt_exc(e))
            continue
        for key, got in outs.items():
            if got != want[key]:
                res.violation({"same_named": k, "specs": specs}, {"what": f"{key[0]}.step > $v:@{key[1]} (step {k} of a sequence over two same-named functions)", "expected": want[key], "got": got})
        res.count("same_named_function_sequences")


def run_shard(spec):
    res = ShardResult()
    if spec.get("part") == "A":
        part_a(res)
        check_return_tags(spec["scratch"], res, "a")
        check_same_named_functions(spec["scratch"], res)
        res.sample({"part": "A", "example": "tag.B & tag.A & tag.B == tag.A & tag.B"})
        return res.as_dict()
    ilog = InteractLog()
    s0, cnt = spec["range"]
    for i in range(s0, s0 + cnt):
        rnd = rng_for("C11", spec["seed"], i)
        opts = {"max_stmts": spec.get("max_stmts", 7), "tags": True}
        m = progen.build_module(rnd, opts)
        mod = prorun.load_src(m["src"], spec["scratch"], f"c11m_{i % 50}")
        case_base = {"idx": i, "seed": spec["seed"], "max_stmts": opts["max_stmts"], "program": streams.fn_source(m)[:2500], "script": m["script"], "anns": m["anns"]}
        try:
            check_program(m, mod, rnd, res, case_base, ilog)
        except Exception as e:
            res.violation(case_base, "harness exception: " + common.fmt_exc(e))
        if i % 300 == 0:
            res.sample({"program": streams.fn_source(m)[:800], "anns": m["anns"]})
    return res.as_dict()


def plan(tier, seed, known):
    if tier == "quick":
        n, shards, ms = 800, 15, 7
    else:
        n, shards, ms = 20000, 48, 10
    return [{"part": "A"}] + [{"range": [s, c], "max_stmts": ms} for s, c in common.split_range(n, shards)]


def replay(case):
    res = ShardResult()
    d = common.scratch_dir("C11r")
    if case.get("part") == "A" or "ret" in case:
        part_a(res)
        check_return_tags(d, res, "r")
        return res.violations
    rnd = rng_for("C11", case["seed"], case["idx"])
    m = progen.build_module(rnd, {"max_stmts": case.get("max_stmts", 7), "tags": True})
    print(streams.fn_source(m))
    print("annotations:", m["anns"], "script:", m["script"])
    mod = prorun.load_src(m["src"], d, "c11r")
    check_program(m, mod, rnd, res, {"idx": case["idx"], "seed": case["seed"]}, InteractLog())
    return res.violations
