"""C12 - value conditions in selectors filter events exactly by the stated predicate.

Part A (exhaustive): stock predicates vs arithmetic reference over an integer box.
Part B (sampled): generated loop programs x constrained selectors; oracle = events of
        the unconstrained selector filtered by the arithmetic reference; overrides under
        a condition compared with a substituted twin.
"""

import itertools

from vlib import common
from vlib.common import ShardResult, rng_for

PROPERTY = "C12"
LEVEL = "exploration"
RULE = (
    "Part A: every integer argument combination in [-7,7] (plus None for optional bounds) for "
    "every/between/lt/gt/lte/gte, each compared with the arithmetic definition in the property; "
    "distinct = distinct (predicate, args) tuples whose truth set over the box is neither empty nor full. "
    "Part B: generated nested-loop programs x constrained selectors (equality and ~predicate on captures at "
    "one or two stack levels, focus constrained or not, immediate/total, overridable); oracle = events of the "
    "same selector without value constraints filtered by 'every constrained capture present in the event "
    "satisfies its reference predicate'; non-trivial = the filter both kept and dropped at least one event; "
    "distinct = distinct (program shape, selector, input) triples.  "
    "Part L (hand-written): the same capture name at two levels of one selector, the condition written on the outer or on "
    "the inner level, with aliased and one-level controls, four predicates, inputs -3..7; oracle = arithmetic filter on the "
    "variable of the level the condition is written on."
)
ASSUMPTIONS = [
    "Reference predicates are written from the property text: every(n,start,end)(v) <=> start<=v<end and (v-start)%n==0; between(a,b)(v) <=> a<=v<b.",
    "every(n) is only evaluated for n != 0 (n == 0 has no meaning in the statement).",
    "throttle has no arithmetic meaning in the statement; its reference is a small model written in the harness (RefThrottle: first value accepted, repeats of the last accepted value pass, otherwise the value must reach a trigger that advances by one period) replayed over the unconstrained stream, so both the iff plumbing and the stateful predicate of the pinned commit are compared.",
    "Part B compares two runs of the same deterministic generated program (constrained vs unconstrained selector).",
    "Total (focus-free) selectors: check_captures applies to all accumulated values of a constrained capture; the reference requires every accumulated value to satisfy the predicate.",
]
MECH_SAME_NAME = "condition-on-inner-capture-evaluated-on-same-named-outer-capture"
MECHANISMS = {
    MECH_SAME_NAME: "when two levels of one selector capture the same name (outer(x) > inner(x~gt(0)) > y) the captures are merged by name with the outer one winning, so the condition written on inner's x is evaluated on outer's x: events are delivered although inner's x fails the predicate (and withheld although it holds)",
}
MIN_DECIDING = {"quick": 20000, "thorough": 100000}
EXHAUSTIVE = {}
SHARD_TIMEOUT = {"quick": 300, "thorough": 1800}

BOX = list(range(-7, 8))


def ref_every(n, start, end, v):
    s = 0 if start is None else start
    if start is not None and v < start:
        return False
    if end is not None and v >= end:
        return False
    return (v - s) % n == 0


def ref_between(a, b, v):
    return a <= v < b


# ----------------------------------------------------------------- part A


def part_a(spec, res):
    from ptera import tools

    lo, hi = spec["n_range"]
    box = BOX if spec["tier"] == "thorough" else list(range(-6, 7))
    ends = box + [None]
    for n in box[lo:hi]:
        if n == 0:
            continue
        for start in box:
            for end in ends:
                p = tools.every(n, start, end)
                truth = []
                for v in box:
                    got = bool(p(v))
                    exp = ref_every(n, start, end, v)
                    res.deciding += 1
                    truth.append(exp)
                    if got != exp:
                        res.violation(
                            {"part": "A", "pred": "every", "args": [n, start, end], "v": v},
                            f"every({n},{start},{end})({v}) = {got}, reference {exp}",
                        )
                res.evaluations += 1
                if any(truth) and not all(truth):
                    res.nontrivial_case(["every", n, start, end])
        # defaults: every(n) means start=0, no end
        p = tools.every(n)
        for v in box:
            res.deciding += 1
            if bool(p(v)) != ref_every(n, 0, None, v):
                res.violation(
                    {"part": "A", "pred": "every", "args": [n], "v": v},
                    f"every({n})({v}) = {bool(p(v))}",
                )
        # keyword forms
        for start in box[::3]:
            p = tools.every(n, start=start)
            for v in box:
                res.deciding += 1
                if bool(p(v)) != ref_every(n, start, None, v):
                    res.violation(
                        {"part": "A", "pred": "every", "args": [n, start], "v": v},
                        f"every({n},start={start})({v}) = {bool(p(v))}",
                    )
    if spec.get("with_cmp"):
        for a in box:
            for b in box:
                p = tools.between(a, b)
                truth = []
                for v in box:
                    res.deciding += 1
                    exp = ref_between(a, b, v)
                    truth.append(exp)
                    if bool(p(v)) != exp:
                        res.violation(
                            {"part": "A", "pred": "between", "args": [a, b], "v": v},
                            f"between({a},{b})({v}) = {bool(p(v))}, reference {exp}",
                        )
                res.evaluations += 1
                if any(truth) and not all(truth):
                    res.nontrivial_case(["between", a, b])
            for name, ref in (
                ("lt", lambda x, v: v < x),
                ("gt", lambda x, v: v > x),
                ("lte", lambda x, v: v <= x),
                ("gte", lambda x, v: v >= x),
            ):
                p = getattr(tools, name)(a)
                truth = []
                for v in box:
                    res.deciding += 1
                    exp = ref(a, v)
                    truth.append(exp)
                    if bool(p(v)) != exp:
                        res.violation(
                            {"part": "A", "pred": name, "args": [a], "v": v},
                            f"{name}({a})({v}) = {bool(p(v))}, reference {exp}",
                        )
                res.evaluations += 1
                if any(truth) and not all(truth):
                    res.nontrivial_case([name, a])
        res.sample({"part": "A", "example": "every(3,-2,5) truth set over box", "set": [v for v in box if ref_every(3, -2, 5, v)]})


# ----------------------------------------------------------------- part B

PRED_SPECS = [
    # (selector text, reference factory)
    ("every({a})", lambda a, b: (lambda v: ref_every(a, 0, None, v)), "nz"),
    ("every({a},{b})", lambda a, b: (lambda v: ref_every(a, b, None, v)), "nz"),
    ("every({a},start={b})", lambda a, b: (lambda v: ref_every(a, b, None, v)), "nz"),
    ("between({a},{b})", lambda a, b: (lambda v: ref_between(a, b, v)), ""),
    ("lt({a})", lambda a, b: (lambda v: v < a), ""),
    ("gt({a})", lambda a, b: (lambda v: v > a), ""),
    ("lte({a})", lambda a, b: (lambda v: v <= a), ""),
    ("gte({a})", lambda a, b: (lambda v: v >= a), ""),
]


def gen_program(rnd, idx):
    """A nested-loop program over functions f -> g. Returns (source, meta)."""
    c1, c2, c3 = rnd.randint(0, 3), rnd.randint(1, 3), rnd.randint(0, 4)
    inner_call = rnd.random() < 0.7
    second_loop = rnd.random() < 0.5
    lines = [
        "def g(x, w):",
        f"    y = x * {c2} + w",
        f"    z = y - {c3}",
        "    return z",
        "",
        "def f(n, m):",
        "    acc = 0",
        "    for i in range(n):",
        f"        a = i * {c2} - {c1}",
        "        for j in range(m):",
        f"            b = i + j - {c1}",
    ]
    if inner_call:
        lines += ["            r = g(b, i)", "            acc = acc + r"]
    else:
        lines += ["            acc = acc + b"]
    if second_loop:
        lines += ["    for k in range(m):", f"        c = k * {c2}", "        acc = acc + g(c, k)"]
    lines += ["    return acc"]
    fvars = ["i", "a", "j", "b", "acc"] + (["r"] if inner_call else []) + (["k", "c"] if second_loop else [])
    meta = {
        "fvars": fvars,
        "gvars": ["x", "w", "y", "z"],
        "calls_g": inner_call or second_loop,
        "shape": [c1, c2, c3, inner_call, second_loop],
    }
    return "\n".join(lines) + "\n", meta


def gen_constraint(rnd):
    """Return (text suffix, reference predicate, description)."""
    if rnd.random() < 0.3:
        v = rnd.randint(-2, 6)
        return f"={v}", (lambda x, v=v: x == v), ["eq", v]
    spec, mk, flag = rnd.choice(PRED_SPECS)
    a = rnd.randint(-3, 5)
    b = rnd.randint(-3, 6)
    if flag == "nz" and a == 0:
        a = 2
    txt = spec.format(a=a, b=b)
    return f"~{txt}", mk(a, b), ["pred", txt]


def gen_selector(rnd, meta):
    """Return (constrained selector, unconstrained selector, [(capture, ref)], focus, total)."""
    total = rnd.random() < 0.2
    deep = meta["calls_g"] and rnd.random() < 0.5
    fcaps = rnd.sample(meta["fvars"], rnd.randint(1, min(3, len(meta["fvars"]))))
    gcaps = rnd.sample(meta["gvars"], rnd.randint(1, 2)) if deep else []
    allcaps = [("f", v) for v in fcaps] + [("g", v) for v in gcaps]
    focus = None if total else (allcaps[-1] if deep or rnd.random() < 0.8 else rnd.choice(allcaps))
    if not total and deep:
        focus = ("g", gcaps[-1])
    ncons = rnd.randint(1, min(2, len(allcaps)))
    constrained = rnd.sample(allcaps, ncons)
    conds = []

    def render(with_values, conds=conds):
        parts = {"f": [], "g": []}
        for fn, v in allcaps:
            txt = v
            if (fn, v) == focus:
                txt = "!" + txt
            if with_values:
                for (cfn, cv), (suffix, _ref, _d) in conds:
                    if (cfn, cv) == (fn, v):
                        txt += suffix
            parts[fn].append(txt)
        if deep:
            inner = "g(" + ", ".join(parts["g"]) + ")"
            return "f(" + ", ".join(parts["f"] + [inner]) + ")"
        return "f(" + ", ".join(parts["f"]) + ")"

    for c in constrained:
        conds.append((c, gen_constraint(rnd)))
    # a second, independent set of conditions on the same captures (two conditional overrides on
    # one variable)
    conds2 = [(c, gen_constraint(rnd)) for c in rnd.sample(allcaps, rnd.randint(1, min(2, len(allcaps))))]
    LAST_ALT[0] = (render(True, conds2), conds2)
    return render(True), render(False), conds, focus, total


LAST_ALT = [None]


def run_probe(ns, sel, n, m, total, override=None):
    from ptera import probing

    if override is None:
        out = []
        kw = {"probe_type": "total"} if total else {}
        with probing(sel, env=ns, raw=True, **kw) as p:
            p.subscribe(lambda d: out.append({k: list(c.values) for k, c in d.items()}))
            r = ns["f"](n, m)
        return r, out
    else:
        with probing(sel, env=ns, overridable=True) as p:
            p.override(override)
            r = ns["f"](n, m)
        return r, None


GEN_SRC = """
def ticks(n):
    for t in range(n):
        y = t * 3
        yield y

def driver(k):
    it = ticks(5)
    first = next(it)
    x = k
    rest = [v for v in it]
    return [first] + rest
"""


def check_generator_context(scratch, res):
    """A generator started before the constrained variable of its caller is set, and resumed after:
    the first event is delivered (x is not captured yet), the later ones iff x satisfies the condition;
    an override attached to the selector follows the same rule."""
    import importlib.util
    import os

    from ptera import probing, tools

    path = os.path.join(scratch, "c12gen.py")
    with open(path, "w") as fh:
        fh.write(GEN_SRC)
    sp = importlib.util.spec_from_file_location("c12gen", path)
    mod = importlib.util.module_from_spec(sp)
    sp.loader.exec_module(mod)
    ns = dict(vars(mod), gte=tools.gte)
    for cond, holds in (("x=1", lambda k: k == 1), ("x=2", lambda k: k == 2), ("x~gte(2)", lambda k: k >= 2)):
        for k in (1, 2, 3):
            res.evaluations += 1
            res.deciding += 1
            sel = f"driver({cond}) > ticks > y"
            try:
                with probing(sel, env=ns) as p:
                    got = p.accum()
                    mod.driver(k)
                with probing(sel, env=ns, overridable=True) as p:
                    p.override(lambda d: -1)
                    ov = mod.driver(k)
            except Exception as e:
                res.violation({"part": "G", "sel": sel, "k": k}, "exception: " + common.fmt_exc(e))
                continue
            exp_y = [0] + ([3, 6, 9, 12] if holds(k) else [])
            exp_ov = [-1] + ([-1] * 4 if holds(k) else [3, 6, 9, 12])
            if [e["y"] for e in got] != exp_y or ov != exp_ov:
                res.violation({"part": "G", "sel": sel, "k": k}, {"what": "condition on the caller's variable, generator started before it was set", "events_y": [e["y"] for e in got], "expected_y": exp_y, "overridden_result": ov, "expected_result": exp_ov})
            res.count("G_generator_context_checks")


LEVELS_SRC = """
def inner(x):
    y = x * 10
    return y

def outer(x):
    z = inner(7 - 2 * x)
    return z
"""


def check_same_name_levels(scratch, res, known):
    """The same capture name at two levels of one selector.  A condition belongs to the level it is
    written on: outer(x~P) > inner(x) > y filters on outer's x, outer(x) > inner(x~P) > y on inner's x
    (the latter is the known finding, in its own stream); the aliased spellings are the controls."""
    import importlib.util
    import os

    from ptera import probing, tools

    path = os.path.join(scratch, "c12levels.py")
    with open(path, "w") as fh:
        fh.write(LEVELS_SRC)
    sp = importlib.util.spec_from_file_location("c12levels", path)
    mod = importlib.util.module_from_spec(sp)
    sp.loader.exec_module(mod)
    env = dict(vars(mod))
    for name in ("gt", "lt", "gte", "lte", "between", "every"):
        env[name] = getattr(tools, name)
    preds = [("gt(2)", lambda v: v > 2), ("lt(0)", lambda v: v < 0), ("between(-3, 4)", lambda v: -3 <= v < 4), ("every(2)", lambda v: v >= 0 and v % 2 == 0)]
    xs = list(range(-3, 8))
    for ptxt, pref in preds:
        for level in ("outer", "inner"):
            for spelling in ("same-name", "aliased", "only-constrained-level"):
                if level == "outer":
                    sel = {"same-name": f"outer(x~{ptxt}) > inner(x) > y", "aliased": f"outer(x~{ptxt}) > inner(x as ix) > y", "only-constrained-level": f"outer(x~{ptxt}) > inner > y"}[spelling]
                    exp = [(7 - 2 * v) * 10 for v in xs if pref(v)]
                else:
                    sel = {"same-name": f"outer(x) > inner(x~{ptxt}) > y", "aliased": f"outer(x as ox) > inner(x~{ptxt}) > y", "only-constrained-level": f"outer > inner(x~{ptxt}) > y"}[spelling]
                    exp = [(7 - 2 * v) * 10 for v in xs if pref(7 - 2 * v)]
                res.evaluations += 1
                res.deciding += 1
                case = {"part": "L", "selector": sel}
                try:
                    got = []
                    with probing(sel, env=env) as p:
                        p["y"].subscribe(got.append)
                        for v in xs:
                            mod.outer(v)
                except Exception as e:
                    res.violation(case, "exception: " + common.fmt_exc(e)[-800:])
                    continue
                res.count("L_same_name_level_selectors")
                res.nontrivial_case("L:" + sel)
                if got != exp:
                    why = {"what": "condition evaluated on the wrong level's variable", "selector": sel, "expected_y": exp, "got_y": got}
                    on_outer = [(7 - 2 * v) * 10 for v in xs if pref(v)]
                    if level == "inner" and spelling == "same-name" and MECH_SAME_NAME in known and got == on_outer:
                        res.finding(MECH_SAME_NAME, {"case": case, "why": why})
                    else:
                        res.violation(case, why)


def part_b(spec, res):
    import importlib.util
    import os

    from ptera import tools

    start, count = spec["range"]
    scratch = spec["scratch"]
    if start == 0:
        check_generator_context(scratch, res)
        check_same_name_levels(scratch, res, spec.get("known", []))
    for idx in range(start, start + count):
        rnd = rng_for("C12B", spec["seed"], idx)
        src, meta = gen_program(rnd, idx)
        modname = f"c12m_{idx}"
        path = os.path.join(scratch, modname + ".py")
        with open(path, "w") as f:
            f.write(src)
        sp = importlib.util.spec_from_file_location(modname, path)
        mod = importlib.util.module_from_spec(sp)
        sp.loader.exec_module(mod)
        ns = vars(mod)
        for name in ("every", "between", "lt", "gt", "lte", "gte", "throttle"):
            ns[name] = getattr(tools, name)
        for sidx in range(3):
            csel, usel, conds, focus, total = gen_selector(rnd, meta)
            n, m = rnd.randint(1, 5), rnd.randint(1, 4)
            case = {"part": "B", "idx": idx, "seed": spec["seed"], "src": src, "csel": csel, "usel": usel,
                    "conds": [[list(c), d[2]] for c, d in conds], "n": n, "m": m, "total": total}
            res.evaluations += 1
            try:
                plain = ns["f"](n, m)
                r1, cev = run_probe(ns, csel, n, m, total)
                r2, uev = run_probe(ns, usel, n, m, total)
            except Exception as e:
                res.violation(case, "exception: " + common.fmt_exc(e))
                continue
            if not (plain == r1 == r2):
                res.violation(case, f"results differ plain={plain} constrained={r1} unconstrained={r2}")
            refs = {v: ref for (fn, v), (_s, ref, _d) in conds}

            def keep(ev):
                for v, ref in refs.items():
                    if v in ev and not all(ref(x) for x in ev[v]):
                        return False
                return True

            exp = [ev for ev in uev if keep(ev)]
            res.deciding += 1
            if exp != cev:
                res.violation(case, {"expected": exp[:8], "got": cev[:8], "n_exp": len(exp), "n_got": len(cev)})
            if 0 < len(exp) < len(uev):
                res.nontrivial_case([meta["shape"], csel, n, m])
            res.count("B_events_unconstrained", len(uev))
            res.count("B_events_kept", len(exp))
            if sidx == 0 and idx % 50 == 0:
                res.sample({"selector": csel, "input": [n, m], "events_unconstrained": len(uev), "kept": len(exp)})

            # override under the same condition (immediate selectors only)
            if not total and focus is not None:
                fv = focus[1]
                # reference: run the unconstrained selector with an override that applies the condition itself
                def cond_override(d, refs=refs, fv=fv):
                    from ptera import ABSENT
                    for v, ref in refs.items():
                        if v in d and not ref(d[v]):
                            return ABSENT
                    return d[fv] + 100

                try:
                    from ptera import probing

                    with probing(csel, env=ns, overridable=True) as p:
                        p.override(lambda d, fv=fv: d[fv] + 100)
                        got_r = ns["f"](n, m)
                    # reference run: unconstrained selector, condition evaluated in the override pipeline
                    with probing(usel, env=ns, overridable=True) as p:
                        p.filter(lambda d, refs=refs: all(ref(d[v]) for v, ref in refs.items() if v in d)).override(
                            lambda d, fv=fv: d[fv] + 100
                        )
                        exp_r = ns["f"](n, m)
                except Exception as e:
                    res.violation(case, "override exception: " + common.fmt_exc(e))
                    continue
                # two conditional overrides on the same variable: the one activated last wins where
                # its condition holds, the other one applies where only its own condition holds
                csel2, conds2 = LAST_ALT[0]
                refs2 = {v: ref for (fn, v), (_s, ref, _d) in conds2}

                def both_override(d, refs=refs, refs2=refs2, fv=fv):
                    from ptera import ABSENT
                    if all(ref(d[v]) for v, ref in refs2.items() if v in d):
                        return d[fv] + 1000
                    if all(ref(d[v]) for v, ref in refs.items() if v in d):
                        return d[fv] + 100
                    return ABSENT

                try:
                    with probing(csel, env=ns, overridable=True) as p:
                        p.override(lambda d, fv=fv: d[fv] + 100)
                        with probing(csel2, env=ns, overridable=True) as p2:
                            p2.override(lambda d, fv=fv: d[fv] + 1000)
                            got2 = ns["f"](n, m)
                    with probing(usel, env=ns, overridable=True) as p:
                        p.override(both_override)
                        exp2 = ns["f"](n, m)
                except Exception as e:
                    res.violation(case, "override exception (two conditional overrides): " + common.fmt_exc(e))
                    continue
                res.deciding += 1
                res.count("B_double_override_checks")
                if got2 != exp2:
                    res.violation(dict(case, override=True, csel2=csel2), f"two conditional overrides {csel} (+100, outer) and {csel2} (+1000, inner): got {got2}, reference {exp2}, plain {plain}")
                if got2 not in (plain, got_r):
                    res.count("B_double_override_both_applied")
                res.deciding += 1
                res.count("B_override_checks")
                if got_r != exp_r:
                    res.violation(dict(case, override=True), f"override under condition: got {got_r}, reference {exp_r}, plain {plain}")
                if got_r != plain:
                    res.count("B_override_changed_result")

        # throttle plumbing
        if idx % 4 == 0:
            period = rnd.randint(2, 4)
            csel = f"f(i~throttle({period})) > b"
            usel = "f(i) > b"
            n, m = rnd.randint(3, 8), rnd.randint(1, 3)
            _, cev = run_probe(ns, csel, n, m, False)
            _, uev = run_probe(ns, usel, n, m, False)
            th = RefThrottle(period)
            exp = [ev for ev in uev if all(th(x) for x in ev["i"])]
            res.deciding += 1
            res.evaluations += 1
            if exp != cev:
                res.violation({"part": "B", "src": src, "csel": csel, "usel": usel, "n": n, "m": m, "total": False, "conds": []},
                              {"throttle": period, "expected": exp[:6], "got": cev[:6]})
        del mod


class RefThrottle:
    """Harness-side model of the stateful rate predicate (anchor: throttle.current / trigger): the
    first value seen is accepted and anchors a trigger `period` above it; afterwards a value passes
    iff it equals the most recently accepted value (a constrained outer variable keeps its value
    over many events) or reaches the trigger, which then moves up by one period."""

    def __init__(self, period):
        self.period, self.current, self.trigger = period, None, None

    def __call__(self, v):
        if self.current is None:
            self.current, self.trigger = v, v + self.period
        if v == self.current:
            return True
        if v >= self.trigger:
            self.current, self.trigger = v, self.trigger + self.period
            return True
        return False


def plan(tier, seed, known):
    specs = []
    nbox = len(BOX if tier == "thorough" else range(-6, 7))
    for i, (s, c) in enumerate(common.split_range(nbox, 4)):
        specs.append({"part": "A", "n_range": [s, s + c], "with_cmp": i == 0})
    nb = 2400 if tier == "quick" else 30000
    for s, c in common.split_range(nb, 16 if tier == "quick" else 48):
        specs.append({"part": "B", "range": [s, c]})
    return specs


def run_shard(spec):
    res = ShardResult()
    if spec["part"] == "A":
        part_a(spec, res)
    else:
        part_b(spec, res)
    return res.as_dict()


def replay(case):
    import os
    import tempfile

    res = ShardResult()
    if case.get("part") == "L":
        # hand-written battery: re-run it and keep the violations of this selector
        check_same_name_levels(common.scratch_dir("C12r"), res, [])
        vs = [v for v in res.violations if v["case"].get("selector") == case.get("selector")]
        for v in vs:
            print("PROBLEM:", str(v["why"])[:500])
        return vs
    if case.get("part") == "A":
        from ptera import tools

        p = getattr(tools, case["pred"])(*case["args"])
        print("predicate", case["pred"], case["args"], "value", case["v"], "->", p(case["v"]))
        part_a({"tier": "thorough", "n_range": [0, len(BOX)], "with_cmp": True}, res)
    else:
        d = tempfile.mkdtemp(dir=common.scratch_dir("C12r"))
        print(case["src"])
        print("constrained:", case["csel"], " unconstrained:", case["usel"], " input:", case["n"], case["m"])
        part_b({"seed": case.get("seed", 0), "range": [case.get("idx", 0), 1], "scratch": d, "tier": "quick"}, res)
    return res.violations
