"""C08 - overlays and probes in concurrent threads do not interfere."""

import os
import sys
import threading

from vlib import common, prorun, sched
from vlib.common import ShardResult, rng_for

PROPERTY = "C08"
LEVEL = "exploration"
RULE = (
    "A case = (scenario, schedule).  Scenarios: 2-3 threads each repeating 'activate own probe / overlay -> call the "
    "shared functions -> deactivate' with selectors overlapping on functions and variables (same selector twice; f > a "
    "vs f(a) > g > u; g > u vs f > g > u; three threads; raw autotool+BaseOverlay vs probing; a thread that only calls the "
    "functions while another activates and deactivates probes on them), first activation cold "
    "(variant must be compiled) or warm.  A deterministic scheduler built on sys.settrace runs exactly one thread at a "
    "time and places thread switches at line events of the activation / deactivation / call-entry code of "
    "ptera/transform.py, overlay.py, probe.py (push pop get _apply transform_for transform _tooler _untooler autotool "
    "BaseOverlay.__enter__/__exit__ proceed.__enter__/__exit__ HandlerCollection.proceed Probe._enter/_exit ...) and of "
    "the shared functions, and at opcode (attribute load/store) granularity inside push/pop/_apply.  Quick: every "
    "single-preemption schedule at line granularity for every scenario and start order, two-preemption schedules whose "
    "second hand-over happens at the moment a thread enters a shared function (frame created, first line not run), and "
    "random schedules with <= 3 preemptions; thorough adds opcode-granularity single preemptions, two-preemption schedules and three-thread random "
    "schedules.  Oracle per schedule: every thread's events == its sequential reference, all delivered on the owning "
    "thread, return values == plain results, no exception; after join every function runs its original code object, "
    "instrument_count == 0 and all capture counters are 0.  distinct_nontrivial = distinct interleavings (hash of the "
    "(thread, label) sequence) in which a preemption was actually applied."
)
ASSUMPTIONS = [
    "Exactly one thread runs at a time (cooperative scheduling), so only interleavings at the chosen switch points are explored; switches inside C code or between other bytecodes are not.",
    "Global probes observed from other threads and free-running (uncontrolled) timing are not asserted.",
    "Locks inside ptera (if any) are swapped for cooperative locks so that a blocked acquire yields the turn; a schedule that deadlocks is reported as inconclusive, not as a violation.",
]
MECHANISMS = {
    "unsynchronised-tooling": "push/pop of the per-function instrumentation stack, the code-object swap in _apply, creation of fn.__ptera_stack__ and the temporary rebinding of the function's global name during transform() are not synchronised: with a thread switch inside them another thread's probe loses events, sees 'not properly tooled', or the function is left instrumented / on the wrong code object",
}
MIN_DECIDING = {"quick": 3000, "thorough": 40000}
SHARD_TIMEOUT = {"quick": 1500, "thorough": 7200}

SRC = '''
def g(y):
    u = y * 2
    return u

def f(x):
    a = x + 1
    b = g(a)
    return b

def h(z):
    w = z - 1
    return w
'''

HOT = {
    "push", "pop", "get", "_apply", "transform_for", "_register", "_set_base", "transform", "_tooler", "_untooler", "_tool",
    "autotool", "_install_tooling", "_uninstall_tooling", "_enter", "_exit", "__enter__", "__exit__", "proceed", "plus",
    "minus", "wrap_functions", "verify", "problems", "f", "g", "h", "resolve", "dict_resolver", "_resolve", "select",
}
OPCODE_FNS = {"push", "pop", "_apply", "_tooler", "_untooler"}

# scenario: list of thread scripts; script = list of (kind, selector, fn, arg)
SCENARIOS = {
    "same-selector": [[("probe", "f > a", "f", 1)] * 2, [("probe", "f > a", "f", 5)] * 2],
    "overlapping-captures": [[("probe", "f > a", "f", 1)] * 2, [("probe", "f(a) > g > u", "f", 5)] * 2],
    "nested-vs-direct": [[("probe", "g > u", "g", 2), ("probe", "g > u", "f", 3)], [("probe", "f > g > u", "f", 7)] * 2],
    "overlay-vs-probe": [[("overlay", "f(x) > b", "f", 1)] * 2, [("probe", "f > b", "f", 5), ("probe", "h > w", "h", 9)]],
    "plain-caller-vs-activator": [[("call", "", "f", 1), ("call", "", "g", 4), ("call", "", "f", 2)], [("probe", "f(a) > g > u", "f", 5)] * 2],
    "three-threads": [[("probe", "f > a", "f", 1)], [("probe", "f > b", "f", 5)], [("probe", "g > u", "f", 9)]],
    # one thread's activation is refused (second selector names no variable) after its tooling started,
    # while the other thread's probe on the same function is active
    # a raw overlay on a function that its own thread never tools (inert on its own): while another
    # thread's probe instruments the function it may see events, but its calls must return normally
    "inert-overlay-vs-probe": [[("inert", "f > a", "f", 1)] * 2, [("probe", "f > b", "f", 5)] * 2],
    # one thread creates its probe through the absolute reference of the function (resolved in
    # codefind's registry) while the other thread's activation / deactivation swaps the function's code
    "reference-vs-probe": [[("refprobe", "a", "f", 1)] * 2, [("probe", "f > b", "f", 5)] * 2],
    "refused-activation-vs-probe": [[("probe", "f > a", "f", 1)] * 2, [("refused", ("h > w", "f > nosuchvar"), "f", 5), ("probe", "h > w", "h", 9)]],
}


def ref_events(sel, fn, arg):
    """Hand-derived sequential reference for the 8-line program."""
    a = arg + 1
    if fn == "f":
        vals = {"x": arg, "a": a, "u": 2 * a, "b": 2 * a, "y": a}
    elif fn == "g":
        vals = {"y": arg, "u": 2 * arg}
    else:
        vals = {"z": arg, "w": arg - 1}
    table = {
        ("f > a", "f"): [{"a": vals.get("a")}],
        ("f(a) > g > u", "f"): [{"a": vals.get("a"), "u": vals.get("u")}],
        ("g > u", "g"): [{"u": vals.get("u")}],
        ("g > u", "f"): [{"u": vals.get("u")}],
        ("f > g > u", "f"): [{"u": vals.get("u")}],
        ("f(x) > b", "f"): [{"x": vals.get("x"), "b": vals.get("b")}],
        ("f > b", "f"): [{"b": vals.get("b")}],
        ("h > w", "h"): [{"w": vals.get("w")}],
    }
    return table[(sel, fn)]


def ref_result(fn, arg):
    return {"f": 2 * (arg + 1), "g": 2 * arg, "h": arg - 1}[fn]


def make_body(ns, script):
    from ptera import probing
    from ptera.interpret import Immediate
    from ptera.overlay import BaseOverlay, autotool
    from ptera.selector import select

    def body(tid):
        me = threading.get_ident()
        out = []
        for kind, sel, fn, arg in script:
            evs = []
            if kind == "call":
                r = ns[fn](arg)
            elif kind == "refused":
                from ptera.selector import SelectorError

                try:
                    with probing(*sel, env=ns) as p:
                        p.subscribe(lambda d, evs=evs: evs.append((dict(d), threading.get_ident() == me)))
                    evs.append(({"activation": "was not refused"}, True))
                except SelectorError:
                    pass
                r = ns[fn](arg)
            elif kind == "refprobe":
                from ptera import refstring

                with probing(refstring(ns[fn]) + " > " + sel, env=ns) as p:
                    p.subscribe(lambda d, evs=evs: evs.append((dict(d), threading.get_ident() == me)))
                    r = ns[fn](arg)
            elif kind == "inert":
                so = select(sel, env=ns)
                with BaseOverlay(Immediate(so, trigger=lambda d, evs=evs: evs.append(({k: c.value for k, c in d.items()}, threading.get_ident() == me)))):
                    r = ns[fn](arg)
            elif kind == "probe":
                with probing(sel, env=ns) as p:
                    p.subscribe(lambda d, evs=evs: evs.append((dict(d), threading.get_ident() == me)))
                    r = ns[fn](arg)
            else:
                so = select(sel, env=ns)
                autotool(so)
                try:
                    with BaseOverlay(Immediate(so, trigger=lambda d, evs=evs: evs.append(({k: c.value for k, c in d.items()}, threading.get_ident() == me)))):
                        r = ns[fn](arg)
                finally:
                    autotool(so, undo=True)
            out.append((r, evs))
        return out

    return body


def check_outcome(ns, scenario, run, orig):
    probs = []
    if run["hung"] or run["sched_error"]:
        return None  # inconclusive
    for tid, cls, tb in run["errors"]:
        probs.append({"thread": tid, "problem": f"exception {cls}", "traceback": tb[-700:]})
    for tid, script in enumerate(scenario):
        got = run["results"][tid]
        if got is None:
            continue
        for (kind, sel, fn, arg), (r, evs) in zip(script, got):
            if r != ref_result(fn, arg):
                probs.append({"thread": tid, "problem": f"{fn}({arg}) returned {r}, sequentially {ref_result(fn, arg)}"})
            exp = ref_events(sel if kind != "refprobe" else f"{fn} > {sel}", fn, arg) if kind not in ("call", "refused") else []
            if kind == "inert":
                # whether it sees the events depends on the other thread's probe; it must not see
                # anything else
                if [e for e, _ in evs] not in ([], exp):
                    probs.append({"thread": tid, "problem": f"inert overlay {sel!r} around {fn}({arg}) received {[e for e, _ in evs]}"})
            elif [e for e, _ in evs] != exp:
                probs.append({"thread": tid, "problem": f"probe {sel!r} around {fn}({arg}) received {[e for e, _ in evs]}, sequentially {exp}"})
            if not all(own for _, own in evs):
                probs.append({"thread": tid, "problem": f"event of {sel!r} delivered on another thread"})
    for name in ("f", "g", "h"):
        fn = ns[name]
        st = getattr(fn, "__ptera_stack__", None)
        if fn.__code__ is not orig[name]:
            probs.append({"problem": f"after all threads finished {name} is not on its original code object"})
        if st is not None and (st.instrument_count != 0 or any(v != 0 for v in st.captures.values())):
            probs.append({"problem": f"after all threads finished {name} has instrument_count={st.instrument_count}, captures={[v for v in st.captures.values() if v]}"})
    return probs


class Env:
    def __init__(self, scratch):
        import ptera
        from ptera import overlay, probe, transform

        self.scratch = scratch
        self.registry = sched.Registry()
        from ptera import selector, utils

        self.ncoop = sched.cooperative_locks([overlay, transform, probe, selector, utils], self.registry)
        pt = os.path.dirname(ptera.__file__)
        self.files = {os.path.join(pt, n) for n in ("transform.py", "overlay.py", "probe.py", "selector.py")}
        self.counter = 0

    def fresh(self, warm, scenario):
        self.counter += 1
        # every copy of the program is textually different (a constant in each function) and lives
        # in its own file: equal code objects of an earlier copy would share codefind's registry
        # entries (known finding C14 identical-functions-in-two-files...)
        src = SRC.replace("):\n", f"):\n    _copy = {self.counter}\n")
        old = getattr(self, "last_module", None)
        if old is not None:
            sys.modules.pop(old, None)
        mod = prorun.load_src(src, self.scratch, f"c08m_{self.counter}")
        sys.modules[mod.__name__] = mod  # absolute references import the module by name
        self.last_module = mod.__name__
        try:
            os.remove(os.path.join(self.scratch, f"c08m_{self.counter - 3}.py"))
        except OSError:
            pass
        ns = vars(mod)
        orig = {n: ns[n].__code__ for n in ("f", "g", "h")}
        if warm:
            from ptera import probing

            for script in scenario:
                for kind, sel, fn, arg in script:
                    if kind in ("call", "refused", "inert"):
                        continue
                    if kind == "refprobe":
                        sel = f"{fn} > {sel}"
                    with probing(sel, env=ns):
                        pass
        return mod, ns, orig

    def run(self, scen_name, warm, schedule, opcode=False, labels=False):
        scenario = SCENARIOS[scen_name]
        mod, ns, orig = self.fresh(warm, scenario)
        files = set(self.files) | {mod.__file__}
        bodies = [make_body(ns, s) for s in scenario]
        run = sched.run_schedule(len(scenario), bodies, schedule, files, HOT, OPCODE_FNS if opcode else (), self.registry, timeout=30, labels=labels, entry_fns=("f", "g", "h"))
        probs = check_outcome(ns, scenario, run, orig)
        from ptera.overlay import HandlerCollection

        HandlerCollection.current.set(None)
        return run, probs


def run_shard(spec):
    res = ShardResult()
    env = Env(spec["scratch"])
    res.count("cooperative_locks_installed", env.ncoop)
    known = set(spec.get("known", []))
    name, warm, opcode = spec["scenario"], spec["warm"], spec.get("opcode", False)
    nthreads = len(SCENARIOS[name])
    digests = set()
    if spec["part"] == "single":
        start = spec["start"]
        base, probs = env.run(name, warm, {"start": start}, opcode)
        res.evaluations += 1
        res.deciding += 1
        if probs:
            res.violation({"scenario": name, "warm": warm, "opcode": opcode, "schedule": {"start": start}}, {"what": "sequential (non-preempted) run already fails", "problems": probs[:3]})
            return res.as_dict()
        K = base["steps"]
        res.count("max_steps_per_run", 0)
        res.counters["max_steps"] = K
        lo, hi = spec["krange"]
        for k in range(max(1, int(K * lo)), int(K * hi) + 1):
            for to in range(nthreads):
                if to == start and nthreads == 2:
                    continue
                schedule = {"start": start, "preempt": {k: to}}
                if nthreads == 3:
                    # after the preemption, also try handing over to the third thread later
                    pass
                run_one(env, name, warm, opcode, schedule, res, digests, known)
    elif spec["part"] == "entry":
        # two preemptions: one anywhere (coarse stride), then a hand-over at the moment a thread
        # ENTERS a shared function (frame created on the currently installed variant, first line
        # not yet run) - the other thread then changes the installed variant underneath it
        start = spec["start"]
        base, probs = env.run(name, warm, {"start": start}, opcode)
        K = base["steps"]
        res.counters["max_steps"] = K
        others = [t for t in range(nthreads) if t != start]
        for k in range(1 + spec["offset"], K + 1, spec["stride"]):
            for tid in range(nthreads):
                for fn in ("f", "g"):
                    for nth in (1, 2):
                        to = [t for t in range(nthreads) if t != tid][0]
                        schedule = {"start": start, "preempt": {k: others[0]}, "label_preempt": [[tid, fn, nth, to]]}
                        run_one(env, name, warm, opcode, schedule, res, digests, known)
    else:
        s0, cnt = spec["range"]
        base, _ = env.run(name, warm, {"start": 0}, opcode)
        K = max(2, base["steps"])
        for i in range(s0, s0 + cnt):
            rnd = rng_for("C08", spec["seed"], name, warm, i)
            npre = rnd.randint(1, spec["maxpre"])
            pre = {}
            for _ in range(npre):
                pre[rnd.randint(1, K)] = rnd.randrange(nthreads)
            schedule = {"start": rnd.randrange(nthreads), "preempt": pre, "after_done": rnd.sample(range(nthreads), nthreads)}
            run_one(env, name, warm, opcode, schedule, res, digests, known)
    res.nontrivial = digests
    res.sample({"scenario": name, "warm": warm, "opcode": opcode, "threads": SCENARIOS[name], "steps_of_sequential_run": K})
    return res.as_dict()


def run_one(env, name, warm, opcode, schedule, res, digests, known):
    case = {"scenario": name, "warm": warm, "opcode": opcode, "schedule": schedule}
    res.evaluations += 1
    run, probs = env.run(name, warm, schedule, opcode)
    if probs is None:
        res.count("inconclusive_schedules")
        res.count("inconclusive_" + ("hung" if run["hung"] else str(run["sched_error"]).replace(" ", "_")))
        if len(res.notes) < 5:
            res.notes.append({"inconclusive": case, "hung": run["hung"], "error": run["sched_error"], "errors": run["errors"][:1]})
        return
    res.deciding += 1
    if run["applied"]:
        digests.add(run["digest"])
    res.count("thread_switches", run["switches"])
    if probs:
        mech = "unsynchronised-tooling"
        if mech in known:
            res.finding(mech, {"case": case, "problems": probs[:2]})
        else:
            res.violation(case, probs[:3])


def plan(tier, seed, known):
    specs = []
    slices = [(i / 8, (i + 1) / 8) for i in range(8)]
    for name, scen in SCENARIOS.items():
        n = len(scen)
        for warm in (False, True):
            if tier == "quick" and name in ("three-threads",) and not warm:
                continue
            for start in range(n if n == 2 else 1):
                for lo, hi in (slices if not warm else [(0, 0.5), (0.5, 1)]):
                    specs.append({"part": "single", "scenario": name, "warm": warm, "start": start, "krange": [lo, hi]})
            specs.append({"part": "rand", "scenario": name, "warm": warm, "range": [0, 150 if tier == "quick" else 2500], "maxpre": 3})
            if n == 2:
                for start in (0, 1):
                    if tier == "quick":
                        if not warm:
                            specs.append({"part": "entry", "scenario": name, "warm": warm, "start": start, "stride": 12, "offset": 0})
                    else:
                        for off in range(4):
                            specs.append({"part": "entry", "scenario": name, "warm": warm, "start": start, "stride": 4, "offset": off})
    if tier == "thorough":
        for name in ("same-selector", "overlapping-captures", "overlay-vs-probe"):
            for warm in (False, True):
                for start in (0, 1):
                    for lo, hi in [(i / 16, (i + 1) / 16) for i in range(16)]:
                        specs.append({"part": "single", "scenario": name, "warm": warm, "start": start, "krange": [lo, hi], "opcode": True})
        for name in SCENARIOS:
            specs.append({"part": "rand", "scenario": name, "warm": False, "range": [10**5, 4000], "maxpre": 2})
            specs.append({"part": "rand", "scenario": name, "warm": True, "range": [2 * 10**5, 3000], "maxpre": 4, "opcode": True})
    return specs


def replay(case):
    res = ShardResult()
    env = Env(common.scratch_dir("C08r"))
    run, probs = env.run(case["scenario"], case["warm"], case["schedule"], case.get("opcode", False), labels=True)
    print("scenario:", SCENARIOS[case["scenario"]], "warm:", case["warm"], "schedule:", case["schedule"])
    pre = {int(k) for k in case["schedule"].get("preempt", {})}
    for step, tid, label in run["labels"] or []:
        if any(abs(step - p) <= 3 for p in pre):
            print(f"  step {step}: thread {tid} at {label}" + ("   <-- preempted here" if step in pre else ""))
    for p in probs or []:
        print("PROBLEM:", p)
    if probs:
        res.violation(case, probs[:3])
    return res.violations
