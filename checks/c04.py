"""C04 - overriding a focus variable is equivalent to substituting the assigned value."""

from vlib import common, progen, prorun, streams
from vlib.common import ShardResult, rng_for

PROPERTY = "C04"
LEVEL = "exploration"
RULE = (
    "A case = (generated program, input, focus variable, override function(s), mechanism, nesting order).  The program "
    "runs under 1-3 overriding handlers on the same focus variable - probing(overridable=True).override / koverride / "
    "filter(...).override, Overlay.tweaking, Overlay.rewriting(full=False), raw Immediate(intercept=) - activated in a "
    "random nesting order together with plain probes nested outside and inside them; override functions are constant, "
    "a function of the tentative value, a function of a context capture, or conditional (declining via ABSENT / filter). "
    "Oracle: the hooked twin of the same program run with a substituting hook that stores, at each binding of the focus "
    "variable, the value of the most recently activated handler that did not decline (computed from the tentative "
    "value and the context values at that moment).  Result / exception / generator trace / ordered side-effect log "
    "(=> right-hand sides evaluated exactly once, nothing else changed) / argument and global state must be equal, and "
    "the plain probes' streams must equal the twin's trace of the focus variable (substituted values).  Part B: 2-3 "
    "constant overriders whose selectors have different call-path depth (g > x, f > g > x, h > f > g > x) on one variable "
    "of the C03 call-tree family, activated in random order; the value each binding stores (logged by the program) must "
    "be that of the most recently activated handler whose path matches that activation.  Focus positions: "
    "parameters, plain / tuple / starred / augmented / annotated assignment, loop targets, with targets, attribute "
    "stores (o.attr), the return value (#value).  Sequences: a call in which the override supplies a value and a later subscriber of the same probe raises, followed by a call in which the override declines everywhere (must equal the plain call).  Closure variables: an override attempt must raise OverrideException "
    "and leave the cell unchanged.  non-trivial = at least one binding was actually substituted and the program's "
    "outcome or log differs from the un-overridden run; distinct = distinct (program, input, configuration)."
)
ASSUMPTIONS = [
    "Override functions decline (return ABSENT) for tentative values that are not ints, so programs stay well-typed.",
    "What an overridable probe's own stream shows, and which tentative value a later overrider is shown, are not asserted (documented as pre-override).",
    "Subscript stores are not selectable by a selector string and are not overridden here; attribute stores are (f > o.attr).",
]
MECHANISMS = {}
MIN_DECIDING = {"quick": 4000, "thorough": 80000}
SHARD_TIMEOUT = {"quick": 1200, "thorough": 7200}

KINDS = ["const", "plus", "ctx", "cond"]


def is_int(v):
    return isinstance(v, int) and not isinstance(v, bool)


def apply_kind(kind, k, v, ctxval, ABSENT):
    """The override function family: returns new value or ABSENT (decline)."""
    if kind == "tweak":
        return k  # Overlay.tweaking stores the constant whatever the tentative value is
    if not is_int(v):
        return ABSENT
    if kind == "const":
        return k
    if kind == "plus":
        return v + 100 + k
    if kind == "ctx":
        return v + (ctxval if is_int(ctxval) else 0) + 1
    if kind == "cond":
        return ABSENT if v % 2 == 0 else v * 2 + k
    raise ValueError(kind)


def substituting_hook(mod, focus, overriders, ctxname, ABSENT, stats):
    latest = {}

    def hook(fn, kind, name, v):
        if fn == "f" and name == focus:
            new = ABSENT
            for ov in overriders:  # activation order: last non-declining wins
                r = apply_kind(ov["kind"], ov["k"], v, latest.get(ctxname), ABSENT)
                if r is not ABSENT:
                    new = r
            if new is not ABSENT:
                stats["substituted"] += 1
                v = new
        if kind == "var":
            latest[name] = v
        mod.EV.append((fn, kind, name, prorun.norm(v)))
        return v

    return hook


def gen_config(rnd, m, extras):
    names = streams.body_names(m)
    cands = [n for n in names if n not in ("rest", "kws", "o")] + ["#value"] * 2 + m["attr_names"]
    focus = rnd.choice(cands)
    ctxpool = [n for n in names if n != focus and n not in ("o", "rest", "kws")]
    ctxname = rnd.choice(ctxpool) if ctxpool and rnd.random() < 0.7 else None
    novr = rnd.choice([1, 1, 1, 2, 3])
    overriders = []
    for _ in range(novr):
        kind = rnd.choice(KINDS if ctxname else ["const", "plus", "cond"])
        mech = rnd.choice(["override", "koverride", "filter", "tweaking", "rewriting", "intercept"])
        if mech == "tweaking":
            kind = "tweak"
        if mech == "filter":
            kind = "cond"
        if mech == "koverride" and focus.startswith("#") or mech == "koverride" and "." in focus:
            mech = "override"
        overriders.append({"kind": kind, "k": rnd.randint(1, 9), "mech": mech})
    plain_outer = rnd.random() < 0.6
    plain_inner = rnd.random() < 0.6
    return {"focus": focus, "ctx": ctxname, "overriders": overriders, "plain_outer": plain_outer, "plain_inner": plain_inner}


def activate(mod, cfg, plain_streams):
    """Build the context managers in activation order. Returns (list of cms, tooled selectors)."""
    from ptera import ABSENT, Overlay, probing
    from ptera.interpret import Immediate
    from ptera.overlay import BaseOverlay, autotool
    from ptera.selector import select

    ns = vars(mod)
    focus, ctx = cfg["focus"], cfg["ctx"]
    sel = f"f({ctx}) > {focus}" if ctx else f"f > {focus}"
    cms = []
    tooled = []

    def plain_probe(tag):
        out = []
        plain_streams[tag] = out
        p = probing(f"f > {focus}", env=ns)
        p.subscribe(lambda d: out.append(prorun.norm(d[focus])))
        return p

    if cfg["plain_outer"]:
        cms.append(plain_probe("outer"))
    for ov in cfg["overriders"]:
        kind, k, mech = ov["kind"], ov["k"], ov["mech"]

        def fn_values(d, kind=kind, k=k):
            return apply_kind(kind, k, d[focus], d.get(ctx), ABSENT)

        if mech in ("override", "koverride", "filter"):
            # every overridable probe also listens: it must see each binding of the focus once,
            # whatever the other handlers do with it (the values it is shown are not asserted)
            cnt = []
            plain_streams.setdefault("#own_counts", []).append(cnt)
        if mech == "override":
            p = probing(sel, env=ns, overridable=True)
            p.subscribe(lambda d, cnt=cnt: cnt.append(1))
            p.override(fn_values)
            cms.append(p)
        elif mech == "koverride":
            p = probing(sel, env=ns, overridable=True)
            p.subscribe(lambda d, cnt=cnt: cnt.append(1))
            p.koverride(lambda fn_values=fn_values, **kw: fn_values(kw))
            cms.append(p)
        elif mech == "filter":
            p = probing(sel, env=ns, overridable=True)
            p.subscribe(lambda d, cnt=cnt: cnt.append(1))
            # cond declines for even tentative values: express the condition upstream
            p.filter(lambda d: is_int(d[focus]) and d[focus] % 2 != 0).override(lambda d, k=k: d[focus] * 2 + k)
            cms.append(p)
        elif mech in ("tweaking", "rewriting", "intercept"):
            so = select(sel, env=ns)
            autotool(so)
            tooled.append(so)
            if mech == "tweaking":
                entries = {so: k}
                if True:
                    # a second entry in the same call, whose call path never occurs (f never runs
                    # under itself)
                    never = select(f"f > f > {focus}", env=ns)
                    autotool(never)
                    tooled.append(never)
                    entries[never] = k + 1000
                cms.append(Overlay.tweaking(entries))
            elif mech == "rewriting":
                cms.append(Overlay.rewriting({so: fn_values}, full=False))
            else:
                cms.append(BaseOverlay(Immediate(so, intercept=lambda d, fn_values=fn_values: fn_values({n: c.value for n, c in d.items()}))))
    if cfg["plain_inner"]:
        cms.append(plain_probe("inner"))
    return cms, tooled


def check_program(m, mod, rnd, res, case_base, nconf):
    from ptera import ABSENT
    from ptera.overlay import autotool

    for argi in range(min(2, m["nargs"])):
        for _ in range(nconf):
            cfg = gen_config(rnd, m, None)
            case = dict(case_base, argi=argi, config=cfg)
            res.evaluations += 1
            stats = {"substituted": 0}
            hook = substituting_hook(mod, cfg["focus"], cfg["overriders"], cfg["ctx"], ABSENT, stats)
            ref = prorun.run_call(mod, mod.f_T, argi, m["script"], hook=hook, cell_owner="f_T")
            ref_focus = [v for (fn, k, n, v) in ref["events"] if fn == "f" and n == cfg["focus"]]
            plain_streams = {}
            tooled = []
            try:
                cms, tooled = activate(mod, cfg, plain_streams)
                entered = []
                try:
                    for cm in cms:
                        cm.__enter__()
                        entered.append(cm)
                    out = prorun.run_call(mod, mod.f, argi, m["script"])
                finally:
                    for cm in reversed(entered):
                        cm.__exit__(None, None, None)
            except Exception as e:
                res.violation(case, {"what": "exception while overriding", "error": common.fmt_exc(e)[-1500:]})
                continue
            finally:
                for so in reversed(tooled):
                    try:
                        autotool(so, undo=True)
                    except Exception:
                        pass
            res.deciding += 1
            d = [x for x in prorun.same_outcome(ref, out) if x != "cells"]
            if d:
                res.violation(case, {"what": "overridden call differs from the substituted twin", "diff": prorun.describe_diff(ref, out, d), "substitutions_in_twin": stats["substituted"]})
            for cnt in plain_streams.pop("#own_counts", []):
                res.deciding += 1
                if len(cnt) != len(ref_focus):
                    res.violation(case, {"what": "an overridable probe did not receive one event per binding of its focus variable", "bindings": len(ref_focus), "events": len(cnt)})
            for tag, got in plain_streams.items():
                res.deciding += 1
                if got != ref_focus:
                    res.violation(case, {"what": f"plain probe nested {tag}side the overriders does not see the substituted values", "expected": ref_focus[:8], "got": got[:8], "n_expected": len(ref_focus), "n_got": len(got)})
            if stats["substituted"]:
                base = prorun.run_call(mod, mod.f, argi, m["script"])
                if prorun.same_outcome(base, ref):
                    res.nontrivial_case([m["src"], argi, cfg])
                res.count("substitutions", stats["substituted"])
            for ov in cfg["overriders"]:
                res.count("mech_" + ov["mech"])
            res.count("focus_" + ("meta" if cfg["focus"].startswith("#") else "attr" if "." in cfg["focus"] else "var"))
    # a binding whose override was supplied but whose delivery then failed (a later subscriber of the
    # same probe raised) must not leak the supplied value into a later binding that the override declines
    names_ = [n for n in streams.body_names(m) if n not in ("rest", "kws", "o")]
    for argi in range(min(2, m["nargs"])):
        if not names_:
            break
        focus = rnd.choice(names_)
        res.evaluations += 1
        phase = [1]

        class Refuse(Exception):
            pass

        def ov(d, focus=focus, phase=phase):
            return 777 if phase[0] == 1 and is_int(d[focus]) else ABSENT

        def guard(d, phase=phase):
            if phase[0] == 1:
                raise Refuse()

        case = dict(case_base, argi=argi, refused_then_declined=focus)
        try:
            from ptera import probing as _pr

            with _pr(f"f > {focus}", env=vars(mod), overridable=True) as p:
                if argi % 2 == 0:
                    # declines by not being reached (filter upstream of the override)
                    p.filter(lambda d, focus=focus, phase=phase: phase[0] == 1 and is_int(d[focus])).override(lambda d: 777)
                else:
                    p.override(ov)
                p.subscribe(guard)
                first = prorun.run_call(mod, mod.f, argi, m["script"])
                phase[0] = 2
                out = prorun.run_call(mod, mod.f, argi, m["script"])
        except Exception as e:
            res.violation(case, {"what": "exception in the refused-then-declined sequence", "error": common.fmt_exc(e)[-1200:]})
            continue
        base = prorun.run_call(mod, mod.f, argi, m["script"])
        res.deciding += 1
        d = prorun.same_outcome(base, out)
        if d:
            res.violation(case, {"what": "after a binding whose overriding delivery failed, a call in which the override declines everywhere differs from the plain call", "diff": prorun.describe_diff(base, out, d)})
        res.count("refused_then_declined_sequences")
    # closure variable rebound by the body (nonlocal): an override - unconditional, or one that
    # declines the value seen at entry but supplies one at a later store - must not be applied silently
    if m["closure"] and m.get("closure_write") == "cv2" and "cv2" in mod.f.__code__.co_freevars:
        from ptera import ABSENT as _ABS, probing as _probing
        from ptera.interpret import OverrideException as _OE

        for mode in ("always", "not-at-entry"):
            res.evaluations += 1
            res.deciding += 1
            mod.__reset__()
            args, kwargs = mod.make_args(0)
            err = None
            try:
                with _probing("f > cv2", env=vars(mod), overridable=True) as p:
                    if mode == "always":
                        p.override(lambda d: 12345)
                    else:
                        p.override(lambda d: _ABS if d["cv2"] == 43 else 12345)
                    r = mod.f(*args, **kwargs)
                    if m["is_gen"]:
                        for _ in r:
                            pass
            except BaseException as e:
                err = e
            after = prorun.cells_of(mod.f)
            if ("cv2", "12345") in after:
                res.violation(dict(case_base, closure_override="cv2/" + mode), {"what": "a closure variable rebound with nonlocal was silently overridden (the enclosing scope's cell now holds the override)", "cells": after, "raised": repr(err)[:200]})
            res.count("nonlocal_override_attempts")
    # closure variable: override must be refused loudly
    if m["closure"] and "cv1" in mod.f.__code__.co_freevars:
        from ptera import probing
        from ptera.interpret import OverrideException

        res.evaluations += 1
        res.deciding += 1
        before = prorun.cells_of(mod.f)
        mod.__reset__()
        args, kwargs = mod.make_args(0)
        err = None
        try:
            with probing("f > cv1", env=vars(mod), overridable=True) as p:
                p.override(lambda d: 12345)
                r = mod.f(*args, **kwargs)
                if m["is_gen"]:
                    for _ in r:
                        pass
        except OverrideException as e:
            err = e
        except Exception as e:
            err = e
        after = prorun.cells_of(mod.f)
        if not isinstance(err, OverrideException):
            res.violation(dict(case_base, closure_override=True), {"what": "overriding a closure variable was not reported with OverrideException", "got": repr(err), "cells": after})
        elif ("cv1", "12345") in after:
            res.violation(dict(case_base, closure_override=True), {"what": "closure cell was silently overridden", "cells": after})
        res.count("closure_override_attempts")


# ---------------------------------------------------------------- part B: call paths
# Overriders whose selectors have DIFFERENT call-path depth on the same variable, on the
# self-logging call-tree family of C03: the program logs the value each variable holds right
# after its binding, so the stored value is directly observable.


def part_b(spec, res):
    from ptera import probing
    from ptera.interpret import Immediate
    from ptera.overlay import BaseOverlay, autotool
    from ptera.selector import select
    from vlib import calltree as CT

    s0, cnt = spec["range"]
    ns = None
    for i in range(s0, s0 + cnt):
        rnd = rng_for("C04B", spec["seed"], i)
        if ns is None or i % 40 == 0:
            nf = 3
            ns = CT.load_family(spec["scratch"], f"c04fam_{i}", nf)
        tree = CT.rand_tree(rnd, nf, [rnd.randint(2, 9)])
        # focus: variable a_k (or v) of function k; overriders = chains of depth 0..2 ending at k
        k = rnd.randrange(nf)
        fvar = rnd.choice([f"a{k}", f"b{k}", "v"])
        ovs = []
        for j in range(rnd.choice([2, 2, 3])):
            depth = rnd.randint(0, 2)
            sel = ["call", k, [fvar], []]
            fpath = []
            for _ in range(depth):
                sel = ["call", rnd.randrange(nf), [], [sel]]
                fpath = [0] + fpath
            ovs.append({"sel": sel, "fpath": fpath, "const": 10**6 * (j + 1), "mech": rnd.choice(["override", "intercept"])})
        case = {"part": "B", "idx": i, "seed": spec["seed"], "tree": tree, "fvar": fvar, "overriders": [[CT.render(o["sel"], o["fpath"], fvar), o["const"], o["mech"]] for o in ovs]}
        res.evaluations += 1
        # reference: un-overridden run decides which activation each handler matches
        ns["reset"]()
        CT.run_tree(ns, tree)
        L = CT.Log(list(ns["LOG"]))
        binds = [(t, act, var, val) for (t, act, var, val) in L.binds if var == fvar and L.fnof[act] == k]
        matches = []
        for o in ovs:
            exp, order = CT.reference_immediate(L, o["sel"], o["fpath"], fvar)
            matches.append(set(exp))  # focus values (unique) of bindings this handler fires for
        expected = []
        for (t, act, var, val) in binds:
            new = val
            for o, m in zip(ovs, matches):
                if val in m:
                    new = o["const"]  # later-activated handlers overwrite earlier ones
            expected.append(new)
        # overridden run
        ns["reset"]()
        cms = []
        tooled = []
        try:
            for o in ovs:
                text = CT.render(o["sel"], o["fpath"], fvar)
                if o["mech"] == "override":
                    p = probing(text, env=ns, overridable=True)
                    p.override(o["const"])
                    cms.append(p)
                else:
                    so = select(text, env=ns)
                    autotool(so)
                    tooled.append(so)
                    cms.append(BaseOverlay(Immediate(so, intercept=lambda d, c=o["const"]: c)))
            entered = []
            try:
                for cm in cms:
                    cm.__enter__()
                    entered.append(cm)
                CT.run_tree(ns, tree)
            finally:
                for cm in reversed(entered):
                    cm.__exit__(None, None, None)
        except Exception as e:
            res.violation(case, {"what": "exception while overriding", "error": common.fmt_exc(e)[-1200:]})
            ns = None
            continue
        finally:
            for so in reversed(tooled):
                try:
                    autotool(so, undo=True)
                except Exception:
                    pass
        L2 = CT.Log(list(ns["LOG"]))
        got = [val for (t, act, var, val) in L2.binds if var == fvar and L2.fnof[act] == k]
        res.deciding += 1
        if got != expected:
            res.violation(case, {"what": "stored values differ: the most recently activated matching override must win", "expected": expected, "got": got})
        nmatch = [sum(1 for (t, a, v, val) in binds if val in m) for m in matches]
        if sum(1 for n in nmatch if n) >= 2 and len({len(o["fpath"]) for o in ovs}) >= 2:
            res.nontrivial_case(["B", tree, case["overriders"]])
        res.count("B_bindings_overridden", sum(1 for e, (t, a, v, val) in zip(expected, binds) if e != val))
        if i % 500 == 0:
            res.sample(case)


def run_shard(spec):
    res = ShardResult()
    if spec.get("part") == "B":
        part_b(spec, res)
        return res.as_dict()
    s0, cnt = spec["range"]
    for i in range(s0, s0 + cnt):
        rnd = rng_for("C04", spec["seed"], i)
        opts = {"max_stmts": spec.get("max_stmts", 7)}
        m = progen.build_module(rnd, opts)
        mod = prorun.load_src(m["src"], spec["scratch"], f"c04m_{i % 50}")
        case_base = {"idx": i, "seed": spec["seed"], "max_stmts": opts["max_stmts"], "program": streams.fn_source(m)[:2500], "script": m["script"]}
        try:
            check_program(m, mod, rnd, res, case_base, spec["nconf"])
        except Exception as e:
            res.violation(case_base, "harness exception: " + common.fmt_exc(e))
        if i % 300 == 0:
            res.sample({"program": streams.fn_source(m)[:800], "script": m["script"]})
    return res.as_dict()


def plan(tier, seed, known):
    if tier == "quick":
        n, shards, nconf, ms = 1600, 16, 2, 7
    else:
        n, shards, nconf, ms = 40000, 48, 3, 10
    specs = [{"range": [s, c], "nconf": nconf, "max_stmts": ms} for s, c in common.split_range(n, shards)]
    nb = 3000 if tier == "quick" else 60000
    specs += [{"part": "B", "range": [s, c]} for s, c in common.split_range(nb, 8 if tier == "quick" else 16)]
    return specs


def replay(case):
    res = ShardResult()
    d = common.scratch_dir("C04r")
    if case.get("part") == "B":
        print("tree:", case["tree"], "overriders (activation order):", case["overriders"])
        part_b({"range": [case["idx"], 1], "seed": case["seed"], "scratch": d}, res)
        return res.violations
    rnd = rng_for("C04", case["seed"], case["idx"])
    m = progen.build_module(rnd, {"max_stmts": case.get("max_stmts", 7)})
    print(streams.fn_source(m))
    print("script:", m["script"], "config:", case.get("config"))
    mod = prorun.load_src(m["src"], d, "c04r")
    check_program(m, mod, rnd, res, {"idx": case["idx"], "seed": case["seed"]}, 3)
    return res.violations
