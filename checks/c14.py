"""C14 - absolute references keep resolving to the same function across probing."""

import importlib
import os
import sys

from vlib import common
from vlib.common import ShardResult, rng_for

PROPERTY = "C14"
LEVEL = "exploration"
RULE = (
    "A generated module on disk places 5-11 functions at module level, as methods of classes and nested classes, as "
    "static methods, inside factory functions (one or two levels deep, with and without captured free variables), behind "
    "functools.wraps decorators (module level and methods), ptera's own @tooled decorator, and as a method sharing its name with a module-level function; a history (<= 10 quick / <= 16 thorough) of {activate a probe by name, activate by absolute "
    "reference, deactivate any active probe (nested or out of order), call a function, resolve a reference} runs against "
    "it.  At every 'resolve' (and after every step for the functions touched so far) the monitor requires "
    "select(refstring(fn) + ' > v').element.name is the function itself (the undecorated one for decorated functions) "
    "and refstring(fn) unchanged; every call must deliver exactly one event to every active probe on that function "
    "whether it was made by name or by reference, and none to the others; instrument counters / installed code follow "
    "a shadow of the active set.  non-trivial = history with >= 1 resolve while a probe is active on that function; "
    "distinct = distinct (module layout, op sequence)."
)
ASSUMPTIONS = [
    "A factory is instantiated once per module (two closures of one factory share a code object, so their reference is ambiguous by construction and outside 'functions that have an absolute reference string').",
    "For a decorated function the reference denotes the function written in the 'def' (docs: the absolute notation bypasses decorators).",
    "Generated modules are imported by name from a scratch directory on sys.path.",
    "Every generated module has its own constants, so no two generated files contain a textually identical function (identical functions in two files are the trigger of the listed known finding and live in its own stream).",
]
MECH_TWIN = "identical-functions-in-two-files-share-registry-entries"
MECH_SHADOW = "reference-shadowed-by-same-named-method"
MECHANISMS = {
    MECH_TWIN: "two files that contain a textually identical function (same name, same first line) have EQUAL code objects; codefind keys its path/function tables by code object, so swapping the code of one of them re-points the other file's reference: after probing a.f, '/b/f' resolves to a.f and probes made through it land on a.f",
    MECH_SHADOW: "when a module-level function f and a method (or nested function) also called f live in one file, probing the method makes '/module/f' resolve to the method from then on: compiling the variant exec's a synthetic module whose top-level def f is picked up by codefind's audit hook and re-registered under the path (file, 'f')",
    "ambiguous-reference-while-probed": "resolving '/m/f' while a probe is active on f raises 'Reference is ambiguous': the compiled variant's helper function shares the swapped-in code object and is not marked __ptera_discard__",
}
MIN_DECIDING = {"quick": 5000, "thorough": 100000}
SHARD_TIMEOUT = {"quick": 900, "thorough": 7200}


def gen_module(rnd, name, collide=None, salt=0):
    """Returns (source, [fn descriptors]).  descriptor: dict(access=python expr from module ns to the
    probed callable, target=expr giving the function that must be resolved, by_name=selector prefix, k=const)."""
    lines = [
        "import functools",
        "",
        "def deco(fn):",
        "    @functools.wraps(fn)",
        "    def wrapper(*a, **k):",
        "        return fn(*a, **k)",
        "    return wrapper",
        "",
    ]
    descs = []

    k = [salt * 100]

    def body(indent, selfarg):
        k[0] += 1
        c = 100 * k[0]
        pad = " " * indent
        return [f"{pad}    v = x + {c}", f"{pad}    return v"], c

    n_top = rnd.randint(1, 2)
    for i in range(n_top):
        b, c = body(0, False)
        lines += [f"def top{i}(x):"] + b + [""]
        descs.append({"call": f"top{i}({{x}})", "target": f"top{i}", "by_name": f"top{i}", "k": c, "kind": "top"})
    # decorated module-level
    if rnd.random() < 0.8:
        b, c = body(0, False)
        lines += ["@deco", "def dec0(x):"] + b + [""]
        descs.append({"call": "dec0({x})", "target": "dec0.__wrapped__", "by_name": "dec0", "k": c, "kind": "decorated"})
    # decorated with ptera's own tooled: the tooled function is what the name and the reference denote
    if rnd.random() < 0.5:
        b, c = body(0, False)
        lines += ["from ptera import tooled as _tooled", "@_tooled", "def pre0(x):"] + b + [""]
        descs.append({"call": "pre0({x})", "target": "pre0", "by_name": "pre0", "k": c, "kind": "tooled-decorator"})
    # tooled in place (decorator form or a later call): the function object stays, its code is the
    # fully instrumented one, and ptera keeps a helper copy that shares that code (r7 seeded change)
    if rnd.random() < 0.5:
        b, c = body(0, False)
        if rnd.random() < 0.5:
            lines += ["from ptera import tooled as _tooled2", "@_tooled2.inplace", "def inp0(x):"] + b + [""]
        else:
            lines += ["from ptera import tooled as _tooled2", "def inp0(x):"] + b + ["", "_tooled2.inplace(inp0)", ""]
        descs.append({"call": "inp0({x})", "target": "inp0", "by_name": "inp0", "k": c, "kind": "tooled-inplace"})
    # class with methods
    b, c = body(4, True)
    lines += ["class K:", "    def meth(self, x):"] + b
    descs.append({"call": "K().meth({x})", "target": "K.meth", "by_name": "K.meth", "k": c, "kind": "method"})
    if rnd.random() < 0.6:
        b, c = body(4, False)
        lines += ["    @staticmethod", "    def sm(x):"] + b
        descs.append({"call": "K.sm({x})", "target": "K.sm", "by_name": "K.sm", "k": c, "kind": "staticmethod"})
    if rnd.random() < 0.6:
        b, c = body(4, True)
        lines += ["    @deco", "    def dmeth(self, x):"] + b
        descs.append({"call": "K().dmeth({x})", "target": "K.dmeth.__wrapped__", "by_name": "K.dmeth", "k": c, "kind": "decorated-method"})
    if rnd.random() < 0.7:
        b, c = body(8, True)
        lines += ["    class Inner:", "        def im(self, x):"] + b
        descs.append({"call": "K.Inner().im({x})", "target": "K.Inner.im", "by_name": "K.Inner.im", "k": c, "kind": "nested-class-method"})
    lines.append("")
    # factory
    if rnd.random() < 0.8:
        b, c = body(4, False)
        k[0] += 1
        cf = 100 * k[0]
        lines += ["def factory(x=0):", f"    v = x + {cf}", "    def inner(x):"] + b + ["    return inner", "", "inner_fn = factory()", ""]
        descs.append({"call": "inner_fn({x})", "target": "inner_fn", "by_name": "inner_fn", "k": c, "kind": "local-function"})
        # the enclosing function itself is a probe target too (the closure it returns is dropped at once)
        descs.append({"call": "(lambda _r: {x} + %d)(factory({x}))" % cf, "target": "factory", "by_name": "factory", "k": cf, "kind": "enclosing-function"})
    if rnd.random() < 0.6:
        # a closure that really captures a free variable
        k[0] += 1
        c = 100 * k[0]
        lines += ["def factory3():", f"    kfree = {c}", "    def clos(x):", f"        v = x + kfree + {c} - {c}", "        return v", "    return clos", "", "clos_fn = factory3()", ""]
        descs.append({"call": "clos_fn({x})", "target": "clos_fn", "by_name": "clos_fn", "k": c, "kind": "closure-with-free-variable"})
    if (rnd.random() < 0.5) if collide is None else collide:
        # a method that shares its name with a module-level function
        b, c = body(4, True)
        lines += ["class K2:", "    def top0(self, x):"] + b + [""]
        descs.append({"call": "K2().top0({x})", "target": "K2.top0", "by_name": "K2.top0", "k": c, "kind": "method-named-like-a-function"})
    if rnd.random() < 0.4:
        b, c = body(8, False)
        lines += ["def factory2():", "    def mid():", "        def deep(x):"] + b + ["        return deep", "    return mid()", "", "deep_fn = factory2()", ""]
        descs.append({"call": "deep_fn({x})", "target": "deep_fn", "by_name": "deep_fn", "k": c, "kind": "local-function-2"})
    return "\n".join(lines) + "\n", descs


def gen_history(rnd, nf, length):
    ops = []
    for _ in range(length):
        r = rnd.random()
        if r < 0.16:
            ops.append(["act_name", rnd.randrange(nf)])
        elif r < 0.34:
            ops.append(["act_ref", rnd.randrange(nf)])
        elif r < 0.50:
            ops.append(["deact", rnd.randrange(8)])
        elif r < 0.75:
            ops.append(["call", rnd.randrange(nf), rnd.randint(0, 9)])
        else:
            ops.append(["resolve", rnd.randrange(nf)])
    return ops


def run_history(mod, descs, ops, res):
    from ptera import probing, refstring
    from ptera.overlay import HandlerCollection
    from ptera.selector import select

    ns = vars(mod)
    targets = [eval(d["target"], ns) for d in descs]
    orig = [t.__code__ for t in targets]
    refs0 = []
    problems = []
    info = {"resolve_while_active": 0, "resolves": 0}
    for d, t in zip(descs, targets):
        try:
            refs0.append(refstring(t))
        except Exception as ex:
            problems.append({"after": "setup", "problem": f"refstring({d['target']}) raised {type(ex).__name__}: {ex}"})
            return problems, info
    active = []  # dict(fi, how, obj, out, expected)
    base = HandlerCollection.current.get()

    def resolve(fi, where):
        res.deciding += 1
        info["resolves"] += 1
        if any(a["fi"] == fi for a in active):
            info["resolve_while_active"] += 1
        t = targets[fi]
        try:
            r = refstring(t)
        except Exception as ex:
            problems.append({"after": where, "problem": f"refstring({descs[fi]['target']}) raised {type(ex).__name__}: {ex}", "active_on_it": sum(a["fi"] == fi for a in active)})
            return False
        if r != refs0[fi]:
            problems.append({"after": where, "problem": f"refstring changed from {refs0[fi]} to {r}"})
            return False
        try:
            s = select(r + " > v", env={})
        except Exception as ex:
            problems.append({"after": where, "problem": f"select({r + ' > v'!r}) raised {type(ex).__name__}: {ex}", "active_on_it": sum(a["fi"] == fi for a in active)})
            return False
        if s.element.name is not t:
            extra = {}
            if os.environ.get("C14_DEBUG"):
                import codefind
                from codefind import code_registry as cr

                o = s.element.name
                extra = {"last_cost": cr.last_cost, "other_discard": getattr(o, "__ptera_discard__", None), "other_code_is_target_code": o.__code__ is t.__code__, "other_module": getattr(o, "__module__", None), "target_module": t.__module__, "other_has_stack": hasattr(o, "__ptera_stack__"), "other_globals_is_target_globals": o.__globals__ is t.__globals__, "other_qualname": o.__qualname__}
            problems.append({"after": where, "problem": f"{r} resolved to {s.element.name!r}, not to {t!r}", "debug": extra})
            return False
        return True

    def check(where):
        res.deciding += 1
        for fi, t in enumerate(targets):
            n = sum(1 for a in active if a["fi"] == fi)
            st = getattr(t, "__ptera_stack__", None)
            ic = st.instrument_count if st else 0
            if descs[fi]["kind"] in ("tooled-decorator", "tooled-inplace"):
                # a fully tooled function is left as it is by probes: no variants, no counts
                if st is not None or t.__code__ is not orig[fi]:
                    problems.append({"after": where, "problem": f"{descs[fi]['target']}: a fully tooled function got a variant stack / another code object"})
                continue
            if ic != n:
                problems.append({"after": where, "problem": f"{descs[fi]['target']}: instrument_count {ic}, {n} active probe(s)"})
            if (t.__code__ is orig[fi]) != (n == 0):
                problems.append({"after": where, "problem": f"{descs[fi]['target']}: wrong code object installed for {n} active probe(s)"})
        for a in active + dead:
            if a["out"] != a["expected"]:
                problems.append({"after": where, "problem": f"probe on {descs[a['fi']]['target']} made by {a['how']}: stream {a['out'][-4:]} (n={len(a['out'])}), reference {a['expected'][-4:]} (n={len(a['expected'])})"})
        return not problems

    dead = []
    touched = set()
    for step, op in enumerate(ops):
        where = f"step {step} {op}"
        kind = op[0]
        try:
            if kind in ("act_name", "act_ref"):
                fi = op[1]
                # the enclosing function has two variables to probe (different capture sets mean
                # different variants compiled while it, and the function nested in it, are instrumented)
                focus = "x" if descs[fi]["kind"] == "enclosing-function" and step % 2 else "v"
                text = (descs[fi]["by_name"] if kind == "act_name" else refs0[fi]) + " > " + focus
                out = []
                prb = probing(text, env=ns)
                prb.subscribe(out.append)
                prb.activate()
                active.append({"fi": fi, "how": kind, "obj": prb, "out": out, "expected": [], "focus": focus})
                touched.add(fi)
            elif kind == "deact":
                if not active:
                    continue
                a = active.pop(op[1] % len(active))
                a["obj"].deactivate()
                dead.append(a)
            elif kind == "call":
                fi, x = op[1], op[2]
                r = eval(descs[fi]["call"].format(x=x), ns)
                if r != x + descs[fi]["k"]:
                    problems.append({"after": where, "problem": f"{descs[fi]['call'].format(x=x)} returned {r}"})
                for a in active:
                    if a["fi"] == fi:
                        a["expected"].append({"v": x + descs[fi]["k"]} if a.get("focus", "v") == "v" else {"x": x})
            elif kind == "resolve":
                touched.add(op[1])
                if not resolve(op[1], where):
                    break
        except Exception as ex:
            problems.append({"after": where, "problem": "exception: " + common.fmt_exc(ex)})
            break
        if not check(where):
            break
        ok = True
        for fi in sorted(touched):
            if not resolve(fi, where + " (re-resolve of touched functions)"):
                ok = False
                break
        if not ok:
            break
    if not problems:
        try:
            while active:
                a = active.pop(0)
                a["obj"].deactivate()
                dead.append(a)
            check("wind-down")
            for fi in range(len(descs)):
                if not resolve(fi, "wind-down"):
                    break
        except Exception as ex:
            problems.append({"after": "wind-down", "problem": "exception: " + common.fmt_exc(ex)})
    HandlerCollection.current.set(base)
    from ptera import probe as probe_mod

    probe_mod.global_probes.clear()
    return problems, info


def classify(problems):
    t = " ".join(str(p["problem"]) for p in problems)
    # the shadowed reference either resolves to the method, or a probe made through it lands on
    # the method (counters / code / stream of top0 and K2.top0 are swapped)
    if "top0" in t and all("top0" in str(p["problem"]) for p in problems):
        return MECH_SHADOW
    if "is ambiguous" in t and all(p.get("active_on_it", 1) >= 1 for p in problems if "ambiguous" in str(p["problem"])):
        return "ambiguous-reference-while-probed"
    return None


def twin_stream(spec, res):
    """Known-finding stream: two files with identical text; probe a function of the first, then
    resolve the reference of its twin in the second."""
    scratch = spec["scratch"]
    if scratch not in sys.path:
        sys.path.insert(0, scratch)
    s0, cnt = spec["range"]
    for i in range(s0, s0 + cnt):
        src, descs = gen_module(rng_for("C14twin", spec["seed"], i), "x", False, salt=i + 1)
        mods = []
        for tag in ("a", "b"):
            name = f"c14tw_{spec['seed']}_{i}{tag}"
            with open(os.path.join(scratch, name + ".py"), "w") as f:
                f.write(src)
            importlib.invalidate_caches()
            mods.append(importlib.import_module(name))
        res.evaluations += 1
        pa, _ = run_history(mods[0], descs, [["act_ref", 0], ["call", 0, 1], ["deact", 0]], res)
        pb, _ = run_history(mods[1], descs, [["resolve", 0], ["act_ref", 0], ["call", 0, 2], ["deact", 0]], res)
        case = {"twin": True, "src": src, "descs": descs, "ops": "probe /a/top0, then resolve and probe /b/top0"}
        # signature of the known mechanism: a reference resolves to (or a probe lands on) the
        # same-named function of the twin file; with a @tooled function in the files this shows as soon
        # as the second file is imported, i.e. already in the history on the first module
        def twin_signature(p):
            t = str(p["problem"])
            return "resolved to" in t or "instrument_count" in t or "stream" in t

        allp = pa + pb
        if allp and all(twin_signature(p) for p in allp):
            res.finding(MECH_TWIN, {"case": case, "problems": allp[:2]})
        elif allp:
            res.violation(case, [p for p in allp if not twin_signature(p)][:2])


def run_shard(spec):
    res = ShardResult()
    if spec.get("finding") == MECH_TWIN:
        twin_stream(spec, res)
        return res.as_dict()
    known = set(spec.get("known", []))
    mech = "ambiguous-reference-while-probed"
    s0, cnt = spec["range"]
    scratch = spec["scratch"]
    finding_stream = spec.get("finding") == MECH_SHADOW
    collide = True if finding_stream else (False if MECH_SHADOW in known else None)
    if scratch not in sys.path:
        sys.path.insert(0, scratch)
    if os.environ.get("C14_FORCE_CACHE"):
        from codefind import code_registry

        code_registry.always_use_cache = True
    mod = descs = src = None
    for n, i in enumerate(range(s0, s0 + cnt)):
        rnd = rng_for("C14", spec["seed"], i)
        if mod is None or n % 10 == 0:
            name = f"c14m_{spec['seed']}_{i}"
            src, descs = gen_module(rng_for("C14mod", spec["seed"], i), name, collide, salt=i + 1)
            with open(os.path.join(scratch, name + ".py"), "w") as f:
                f.write(src)
            importlib.invalidate_caches()
            mod = importlib.import_module(name)
        ops = gen_history(rnd, len(descs), rnd.randint(3, spec["maxlen"]))
        case = {"src": src, "descs": descs, "ops": ops}
        res.evaluations += 1
        problems, info = run_history(mod, descs, ops, res)
        if problems:
            mod = None
            m = classify(problems)
            if m and m in known and (m != MECH_SHADOW or finding_stream):
                res.finding(m, {"case": case, "problems": problems[:2]})
            else:
                res.violation(case, problems[:3])
        if info["resolve_while_active"]:
            res.nontrivial_case([src, ops])
        res.count("resolves", info["resolves"])
        res.count("resolves_while_active", info["resolve_while_active"])
        for d in descs:
            res.count("placement_" + d["kind"])
        if n % 300 == 0:
            res.sample({"functions": [d["target"] for d in descs], "ops": ops[:8]})
    return res.as_dict()


def plan(tier, seed, known):
    n, shards, maxlen = (3000, 12, 10) if tier == "quick" else (60000, 32, 16)
    specs = [{"range": [s, c], "maxlen": maxlen} for s, c in common.split_range(n, shards)]
    if MECH_SHADOW in known:
        specs += [{"range": [10**6 + s, c], "maxlen": maxlen, "finding": MECH_SHADOW} for s, c in common.split_range(320, 4)]
    if MECH_TWIN in known:
        specs += [{"range": [2 * 10**6, 40], "maxlen": maxlen, "finding": MECH_TWIN}]
    return specs


def replay(case):
    res = ShardResult()
    d = common.scratch_dir("C14r")
    sys.path.insert(0, d)
    with open(os.path.join(d, "c14m_replay.py"), "w") as f:
        f.write(case["src"])
    mod = importlib.import_module("c14m_replay")
    print(case["src"])
    for op in case["ops"]:
        print("  op:", op)
    problems, info = run_history(mod, case["descs"], case["ops"], res)
    for p in problems:
        print("PROBLEM:", p)
    if problems:
        res.violation(case, problems[:3])
    return res.violations
