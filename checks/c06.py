"""C06 - entry/exit, loop, yield, return and error meta-events bracket every path."""

import sys

from vlib import common, progen, prorun, streams
from vlib.common import ShardResult, rng_for

PROPERTY = "C06"
LEVEL = "exploration"
RULE = (
    "A case = (generated control-flow-heavy program or generator, input, driving script).  One merged stream is taken "
    "from probes on #enter #exit #value #error #yield #receive, #loop_X/#endloop_X of every loop variable, and all "
    "plain variables; three independent oracles decide it: (1) a bracket automaton over the observed stream alone - "
    "ENTER first, EXIT last, exactly one of VALUE/ERROR right before EXIT unless the generator was never finished, "
    "LOOP_X..ENDLOOP_X pairs properly nested, every YIELD followed by at most one RECEIVE before anything else; (2) "
    "OutcomeTruth - sys.monitoring (PY_START, PY_RETURN, PY_YIELD, PY_RESUME, PY_THROW, PY_UNWIND) on the ORIGINAL code "
    "object in a separate un-instrumented run: one VALUE with the returned object iff PY_RETURN, one ERROR carrying the "
    "exception iff PY_UNWIND (incl. GeneratorExit on close/drop), one YIELD per PY_YIELD with that value, one RECEIVE per "
    "resumption by next/send with the sent value and none for throw; (3) the hooked twin for the number, nesting and "
    "position of loop iterations and variable events on every exit (fall-through, continue, break, return, raise, "
    "return inside finally).  Wrapper probes f(!#enter, #error, !!#exit) must deliver a begin/end pair with the error "
    "attached.  non-trivial = stream contains >= 1 loop iteration or yield, or ends by error; distinct = distinct "
    "(program, input, script)."
)
ASSUMPTIONS = [
    "Order among #loop_X events of one iteration start (several loop variables) and among parameter events at entry is not asserted.",
    "The twin places #loop_X before the loop variable's own event and #endloop_X in a finally clause; this is my reading of 'once per iteration on every way of leaving the iteration'.",
    "gen.throw(StopIteration) is not generated (see C01).",
    "An activation that is still suspended when the script ends is closed by the harness (final close) so that every activation ends.",
]
MECHANISMS = {
    "value-event-superseded-by-finally": "#value is reported when a return statement is evaluated; a finally clause that then returns, raises, breaks or continues supersedes that completion, so the activation reports a #value that was never returned (two #value events, or #value followed by #error)",
}
MECH = "value-event-superseded-by-finally"


def has_superseding_finally(src):
    """Trigger of the known mechanism: a `return` (in try body, handlers or else) that is followed
    by a finally clause - whatever runs there may raise, return, break, continue or (in a generator)
    suspend and be closed, superseding the completion that #value announced."""
    import ast
    import textwrap

    tree = ast.parse(textwrap.dedent(src))
    for node in ast.walk(tree):
        if isinstance(node, ast.Try) and node.finalbody:
            for part in (node.body, node.handlers, node.orelse):
                for n in part:
                    for sub in ast.walk(n):
                        if isinstance(sub, ast.Return):
                            return True
    return False


MIN_DECIDING = {"quick": 6000, "thorough": 120000}
SHARD_TIMEOUT = {"quick": 1200, "thorough": 7200}

TOOL = 4


class OutcomeTruth:
    """sys.monitoring on one code object: records how each activation started, yielded, was
    resumed / thrown into, returned or unwound."""

    def __init__(self):
        self.mon = sys.monitoring
        self.ev = []
        self.code = None
        try:
            self.mon.use_tool_id(TOOL, "verif-outcome-truth")
        except ValueError:
            pass
        E = self.mon.events
        self.mask = E.PY_START | E.PY_RETURN | E.PY_YIELD | E.PY_RESUME | E.PY_THROW | E.PY_UNWIND
        self.mon.register_callback(TOOL, E.PY_START, lambda code, off: self._add(code, ("start",)))
        self.mon.register_callback(TOOL, E.PY_RESUME, lambda code, off: self._add(code, ("resume",)))
        self.mon.register_callback(TOOL, E.PY_RETURN, lambda code, off, rv: self._add(code, ("return", prorun.norm(rv))))
        self.mon.register_callback(TOOL, E.PY_YIELD, lambda code, off, rv: self._add(code, ("yield", prorun.norm(rv))))
        self.mon.register_callback(TOOL, E.PY_THROW, lambda code, off, exc: self._add(code, ("throw", type(exc).__name__)))
        self.mon.register_callback(TOOL, E.PY_UNWIND, lambda code, off, exc: self._add(code, ("unwind", prorun.norm(exc))))

    def _add(self, code, ev):
        if code is self.code:
            self.ev.append(ev)

    def watch(self, code):
        self.code = code
        self.ev = []
        # PY_THROW / PY_UNWIND are not available as local (per code object) events in 3.12:
        # monitor globally while the plain run executes and filter by code object.
        self.mon.set_events(TOOL, self.mask)

    def unwatch(self):
        self.mon.set_events(TOOL, 0)
        self.code = None


def automaton(stream, is_gen, ended=True):
    """Bracket automaton over the observed merged stream alone. Returns list of problems.
    ended=False: the activation is still suspended when observation stops (a generator that
    swallowed GeneratorExit and yielded again): only the prefix rules apply."""
    probs = []
    if not stream:
        return ["empty stream (no #enter)"]
    names = [n for n, _ in stream]
    if names[0] != "#enter":
        probs.append(f"first event is {names[0]}, not #enter")
    if names.count("#enter") != 1:
        probs.append(f"{names.count('#enter')} #enter events in one activation")
    nv, ne = names.count("#value"), names.count("#error")
    if ended:
        if names[-1] != "#exit":
            probs.append(f"last event is {names[-1]}, not #exit")
        if names.count("#exit") != 1:
            probs.append(f"{names.count('#exit')} #exit events")
        if nv + ne != 1:
            probs.append(f"{nv} #value and {ne} #error events (exactly one of them expected)")
    elif "#exit" in names:
        probs.append("#exit delivered although the activation never ended")
    stack = []
    awaiting_receive = False
    for i, n in enumerate(names):
        if n.startswith("#loop_"):
            stack.append(n[6:])
        elif n.startswith("#endloop_"):
            v = n[9:]
            # several loop variables of one loop open/close together in any order
            if v not in stack:
                probs.append(f"#endloop_{v} at {i} without matching #loop_{v}")
            else:
                # must close the innermost loop (group of variables opened together)
                j = len(stack) - 1
                while j >= 0 and stack[j] != v:
                    j -= 1
                del stack[j]
    if stack and ended:
        probs.append(f"loop iterations never closed: {stack}")
    if not is_gen and ("#yield" in names or "#receive" in names):
        probs.append("yield/receive events in a plain function")
    for i, n in enumerate(names):
        if n == "#receive" and (i == 0 or names[i - 1] != "#yield"):
            probs.append(f"#receive at {i} not directly preceded by #yield")
    return probs


def truth_expectations(tev, script):
    """From OutcomeTruth events and the driving script: expected meta sub-stream."""
    exp = []
    # sent values, in order of resumptions by next/send
    sent = []
    for op in script or []:
        if op[0] == "next":
            sent.append("None")
        elif op[0] == "send":
            sent.append(repr(op[1]))
        elif op[0] == "exhaust":
            sent.extend(["None"] * 80)
    started = False
    si = 0
    pending_throw = False
    if ("start",) not in tev:
        return []
    for ev in tev:
        if ev[0] == "start":
            exp.append(("#enter", "True"))
            started = True
        elif ev[0] == "yield":
            exp.append(("#yield", ev[1]))
        elif ev[0] == "throw":
            pass  # PY_THROW replaces PY_RESUME for this resumption: no #receive
        elif ev[0] == "resume":
            exp.append(("#receive", None))
        elif ev[0] == "return":
            exp.append(("#value", ev[1]))
            exp.append(("#exit", "True"))
        elif ev[0] == "unwind":
            exp.append(("#error", ev[1]))
            exp.append(("#exit", "True"))
    return exp


def check_program(m, mod, res, case_base, truth):
    from ptera import probing

    names = streams.body_names(m)
    params = set(m["params"])
    for argi in range(min(2, m["nargs"])):
        case = dict(case_base, argi=argi)
        res.evaluations += 1
        # oracle 2: ground truth on the original code object, un-instrumented run
        truth.watch(mod.f.__code__)
        try:
            plain = prorun.run_call(mod, mod.f, argi, m["script"])
        finally:
            tev = list(truth.ev)
            truth.unwatch()
        # oracle 3: twin
        tw, tw_out = streams.twin_events(mod, m, argi)
        exp_all = [(n, v) for (k, n, v) in tw if k == "meta" or n in names]
        try:
            got, out = streams.observe_merged(mod, m, argi, names)
        except Exception as e:
            res.violation(case, {"what": "exception while probing", "error": common.fmt_exc(e)[-1500:]})
            continue
        d = [x for x in prorun.same_outcome(plain, out)]
        if d:
            res.violation(case, {"what": "probed call behaves differently from the plain call", "diff": prorun.describe_diff(plain, out, d)})
            continue
        # a generator that was created but never started has no activation at all
        if ("start",) not in tev:
            # created but never started (possibly thrown into / closed before the first next)
            res.deciding += 1
            if got:
                res.violation(case, {"what": "events for an activation that never started", "got": got[:5]})
            continue
        # (1) automaton
        res.deciding += 1
        ended = any(ev[0] in ("return", "unwind") for ev in tev)
        if not ended:
            res.count("activations_left_suspended")
        probs = automaton(got, m["is_gen"], ended)
        if probs:
            res.violation(case, {"what": "bracket automaton rejected the observed stream", "problems": probs[:4], "stream_tail": got[-8:], "stream_head": got[:4]})
        # (2) OutcomeTruth
        res.deciding += 1
        texp = truth_expectations(tev, m["script"])
        # order: enter first / exit last / yields in order; the statement does not place #value
        # relative to yields made by finally clauses that run after the return expression
        tgot = [(n, v) for n, v in got if n in ("#enter", "#exit", "#yield")]
        texp_cmp = [(n, v) for n, v in texp if n in ("#enter", "#exit", "#yield")]
        vgot = sorted((n, v) for n, v in got if n in ("#value", "#error"))
        vexp = sorted((n, v) for n, v in texp if n in ("#value", "#error"))
        if "yield_from" in m["features"] and any(op[0] == "throw" for op in (m["script"] or [])):
            # gen.throw() on a generator suspended in `yield from` is delegated to the sub-iterator
            # without resuming the generator's own frame: sys.monitoring reports no PY_YIELD for the
            # value the sub-iterator yields in answer, although the generator did yield it to its
            # caller (the twin oracle below still checks these runs)
            res.count("monitoring_yield_oracle_skipped_throw_into_delegation")
        elif tgot != texp_cmp:
            res.violation(case, {"what": "enter/yield/exit events disagree with sys.monitoring ground truth", "monitoring": tev[:12], **streams.first_diff(texp_cmp, tgot)})
        if vgot != vexp:
            res.violation(case, {"what": "return-value / error events disagree with sys.monitoring ground truth", "monitoring": tev[-6:], "expected": vexp, "got": vgot})
        n_recv_exp = sum(1 for n, _ in texp if n == "#receive")
        n_recv_got = sum(1 for n, _ in got if n == "#receive")
        if "yield_from" in m["features"] and any(op[0] == "throw" for op in (m["script"] or [])):
            pass
        elif n_recv_exp != n_recv_got:
            res.violation(case, {"what": "number of #receive events differs from the number of next/send resumptions", "expected": n_recv_exp, "got": n_recv_got, "monitoring": tev[:12]})
        # (3) twin: full merged stream incl. loops, receive values and variable events
        res.deciding += 1
        e3 = streams.sort_runs(exp_all, params)
        g3 = streams.sort_runs(got, params)
        if e3 != g3:
            res.violation(case, {"what": "merged stream differs from the twin's trace", **streams.first_diff(e3, g3)})
        nm = [n for n, _ in got]
        if any(n.startswith("#loop_") for n in nm) or "#yield" in nm or "#error" in nm:
            res.nontrivial_case([m["src"], argi, m["script"]])
        for key in ("#value", "#error", "#yield", "#receive"):
            res.count("events_" + key[1:], nm.count(key))
        res.count("loop_iterations", sum(1 for n in nm if n.startswith("#loop_")))
        # (4) each meta-event must not depend on which other events are selected: probes made of a
        # small subset of the selectors deliver exactly the projection of the full stream
        allsel = list(streams.METAS) + [f"#loop_{v}" for v in m["loopvars"]] + [f"#endloop_{v}" for v in m["loopvars"]] + list(names)
        srnd = rng_for("C06sub", case_base["seed"], case_base["idx"] * 7 + argi)
        present = sorted({n for n, _ in got if n.startswith("#")})
        for k in range(3):
            if k == 0 and present:
                subset = [srnd.choice(present)]
            else:
                subset = srnd.sample(allsel, min(len(allsel), srnd.randint(1, 3)))
            res.deciding += 1
            try:
                sgot, sout = streams.observe_only(mod, m, argi, subset)
            except Exception as e:
                res.violation(dict(case, subset=subset), {"what": "exception while probing a subset of the events", "subset": subset, "error": common.fmt_exc(e)[-1200:]})
                continue
            sexp = [(n, v) for n, v in got if n in subset]
            if streams.sort_runs(sexp, params) != streams.sort_runs(sgot, params):
                res.violation(dict(case, subset=subset), {"what": "a probe on a subset of the events does not deliver the projection of the full stream", "subset": subset, **streams.first_diff(streams.sort_runs(sexp, params), streams.sort_runs(sgot, params))})
            res.count("subset_probes")
            res.count("subset_probe_events", len(sexp))
        # (5) the delivery of the entry event itself fails (a second handler of f > #enter raises):
        # the activation ends by raising, so the first probe still gets #error and #exit
        if argi == 0:
            from ptera import probing as _probing

            class Boom(Exception):
                pass

            def boom(d):
                raise Boom("entry handler fails")

            first = []
            try:
                with _probing("f > #enter", "f > #error", "f > #exit", env=vars(mod), raw=True) as p1:
                    p1.subscribe(lambda d: first.extend((c.name, type(c.value).__name__) for c in d.values()))
                    with _probing("f > #enter", env=vars(mod)) as p2:
                        p2.subscribe(boom)
                        prorun.run_call(mod, mod.f, argi, m["script"])
            except Exception as e:
                res.violation(case, {"what": "exception in the failing-entry-handler run", "error": common.fmt_exc(e)[-800:]})
                first = None
            if first is not None:
                res.deciding += 1
                if first[:3] != [("#enter", "bool"), ("#error", "Boom"), ("#exit", "bool")]:
                    res.violation(case, {"what": "an activation whose entry event handler raised did not deliver #enter, #error, #exit to the other probe", "got": first[:6]})
                res.count("failing_entry_handler_runs")
        # wrapper probe
        res.deciding += 1
        wout = []
        try:
            with probing("f(!#enter, #error, !!#exit)", env=vars(mod)) as prb:
                prb.subscribe(lambda d: wout.append({k: (prorun.norm(v) if k != "$wrap" else v["step"]) for k, v in d.items()}))
                out2 = prorun.run_call(mod, mod.f, argi, m["script"])
        except Exception as e:
            res.violation(case, {"what": "wrapper probe raised", "error": common.fmt_exc(e)[-1200:]})
            continue
        steps = [w.get("$wrap") for w in wout]
        err_exp = [v for n, v in got if n == "#error"]
        if not ended:
            if steps != ["begin"]:
                res.violation(case, {"what": "wrapper probe on an activation that never ended", "got": wout})
        elif steps != ["begin", "end"]:
            res.violation(case, {"what": "wrapper probe f(!#enter, #error, !!#exit) did not deliver one begin/end pair", "got": wout})
        elif err_exp and wout[1].get("#error") != err_exp[0]:
            res.violation(case, {"what": "wrapper probe end event lacks the error", "got": wout, "error": err_exp})
        elif not err_exp and "#error" in wout[1]:
            res.violation(case, {"what": "wrapper probe reports an error for a normal completion", "got": wout})
    for f in m["features"]:
        res.count("feat_" + f)


def run_shard(spec):
    res = ShardResult()
    truth = OutcomeTruth()
    s0, cnt = spec["range"]
    known = set(spec.get("known", []))
    finding_stream = spec.get("finding") == MECH
    for i in range(s0, s0 + cnt):
        rnd = rng_for("C06", spec["seed"], i)
        opts = {"max_stmts": spec.get("max_stmts", 7), "generator": (i % 2 == 0), "exclude": ["import", "class", "def", "attr", "subscript", "expr"]}
        m = progen.build_module(rnd, opts)
        trig = has_superseding_finally(streams.fn_source(m))
        if MECH in known and trig and not finding_stream:
            res.count("skipped_known_trigger")
            continue
        if finding_stream and not trig:
            continue
        mod = prorun.load_src(m["src"], spec["scratch"], f"c06m_{i % 50}")
        case_base = {"idx": i, "seed": spec["seed"], "max_stmts": opts["max_stmts"], "program": streams.fn_source(m)[:2500], "script": m["script"]}
        sub = ShardResult() if finding_stream else res
        try:
            check_program(m, mod, sub, case_base, truth)
        except Exception as e:
            sub.violation(case_base, "harness exception: " + common.fmt_exc(e))
        if finding_stream:
            res.evaluations += sub.evaluations
            res.deciding += sub.deciding
            for v in sub.violations:
                w = v["why"]
                sig = isinstance(w, dict) and (
                    (w.get("what", "").startswith("return-value / error events disagree") and len(w["got"]) > len(w["expected"]))
                    or (w.get("what", "").startswith("bracket automaton") and all("#value and" in p for p in w["problems"]))
                    or (w.get("what", "").startswith("merged stream differs") and False)
                )
                if sig:
                    res.finding(MECH, v["case"])
                else:
                    res.violation(v["case"], v["why"])
        if i % 300 == 0:
            res.sample({"program": streams.fn_source(m)[:800], "script": m["script"], "features": m["features"]})
    return res.as_dict()


def plan(tier, seed, known):
    if tier == "quick":
        n, shards, ms = 1600, 16, 7
    else:
        n, shards, ms = 30000, 48, 10
    specs = [{"range": [s, c], "max_stmts": ms} for s, c in common.split_range(n, shards)]
    if MECH in known:
        specs += [{"range": [10**6 + s, c], "max_stmts": ms, "finding": MECH} for s, c in common.split_range(1600, 8)]
    return specs


def replay(case):
    res = ShardResult()
    d = common.scratch_dir("C06r")
    i = case["idx"]
    rnd = rng_for("C06", case["seed"], i)
    m = progen.build_module(rnd, {"max_stmts": case.get("max_stmts", 7), "generator": (i % 2 == 0), "exclude": ["import", "class", "def", "attr", "subscript", "expr"]})
    print(streams.fn_source(m))
    print("script:", m["script"], "input:", case.get("argi"))
    mod = prorun.load_src(m["src"], d, "c06r")
    check_program(m, mod, res, {"idx": i, "seed": case["seed"]}, OutcomeTruth())
    return res.violations
