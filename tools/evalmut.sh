#!/bin/sh
# usage: tools/evalmut.sh <dir-with patch.diff+demo.py> CNN [more CNN...]
# Confirms the seeded change (tests pass, demo fails with it / passes without), then runs the
# given checks (quick tier) against a scratch worktree with the change applied.
D=$(cd "$1" && pwd); shift
WT=$(mktemp -d /tmp/ptera-ev-XXXXXX)
DEMO=$(mktemp -d /tmp/ptera-demo-XXXXXX)
trap 'git -C /repo worktree remove --force "$WT" >/dev/null 2>&1; rm -rf "$WT" "$DEMO"' EXIT
git -C /repo worktree add -q --detach "$WT" HEAD
cp -r "$D"/. "$DEMO"/
(cd "$DEMO" && PYTHONPATH="$WT" timeout 300 /venv/bin/python demo.py >/dev/null 2>&1); echo "demo on unchanged tree: exit $?"
git -C "$WT" apply "$D/patch.diff" || { echo "PATCH DOES NOT APPLY"; exit 3; }
(cd "$WT" && PYTHONPATH="$WT" /venv/bin/python -m pytest -q -p no:cacheprovider 2>&1 | tail -1)
rm -rf "$DEMO"; DEMO=$(mktemp -d /tmp/ptera-demo-XXXXXX); cp -r "$D"/. "$DEMO"/
(cd "$DEMO" && PYTHONPATH="$WT" timeout 300 /venv/bin/python demo.py >/dev/null 2>&1); echo "demo with the change: exit $?"
cd /verif
for P in "$@"; do
  PTERA_REPO="$WT" VERIF_NOEVIDENCE=1 ./check "$P" --tier ${TIER:-quick} 2>&1 | grep -E "^(VIOLATION|INCONCLUSIVE|KNOWN|C[0-9]+ tier)" | cut -c1-220 | head -4
done
