#!/usr/bin/env python3
"""usage: tools/keepmut.py <src dir with patch.diff demo.py notes.md> <seeded id> <property> <needs...> -- CNN [CNN...]
Confirms the change with tools/evalmut.sh, then stores it as /verif/seeded/<id>/ with meta.json."""
import json, os, shutil, subprocess, sys
src, sid, prop, needs = sys.argv[1], sys.argv[2], sys.argv[3], sys.argv[4]
checks = sys.argv[6:] if sys.argv[5] == "--" else sys.argv[5:]
out = subprocess.run(["/verif/tools/evalmut.sh", src] + checks, capture_output=True, text=True).stdout
lines = out.splitlines()
ok_unchanged = any(l.startswith("demo on unchanged tree: exit 0") for l in lines)
tests_pass = any("269 passed" in l for l in lines)
demo_fails = any(l.startswith("demo with the change: exit ") and not l.endswith(" 0") for l in lines)
caught = {}
for c in checks:
    v = sum(1 for l in lines if l.startswith(f"VIOLATION property={c} "))
    summary = [l for l in lines if l.startswith(f"{c} tier=")]
    caught[c] = {"violation_lines": v, "summary": summary[-1][:200] if summary else ""}
dst = f"/verif/seeded/{sid}"
os.makedirs(dst, exist_ok=True)
for f in os.listdir(src):
    if f.endswith((".py", ".diff", ".md")):
        shutil.copy(os.path.join(src, f), os.path.join(dst, f))
meta = {
    "id": sid, "breaks_property": prop, "needs_to_manifest": needs,
    "confirmed": {"demo_passes_on_unchanged_tree": ok_unchanged, "existing_test_suite_passes_with_change": tests_pass, "demo_fails_with_change": demo_fails},
    "ran": f"tools/evalmut.sh {src} " + " ".join(checks) + "  (scratch worktree of /repo HEAD + git apply patch.diff; pytest; demo.py both ways; ./check <id> --tier quick with PTERA_REPO=<worktree>)",
    "detected_by": {c: caught[c] for c in checks},
    "origin": "independent sub-agent given only the property text and a scratch worktree",
}
json.dump(meta, open(os.path.join(dst, "meta.json"), "w"), indent=1)
print(sid, "confirmed" if (ok_unchanged and tests_pass and demo_fails) else "NOT CONFIRMED", {c: caught[c]["violation_lines"] for c in checks})
