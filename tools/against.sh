#!/bin/sh
# usage: tools/against.sh <git-rev|patch-file> CNN [tier]   -- run a check against a scratch worktree of /repo
# (sensitivity testing only; registered checks always run against /repo itself)
set -e
WT=$(mktemp -d /tmp/ptera-wt-XXXXXX)
trap 'git -C /repo worktree remove --force "$WT" >/dev/null 2>&1; rm -rf "$WT"' EXIT
if [ -f "$1" ]; then
  git -C /repo worktree add -q --detach "$WT" HEAD
  git -C "$WT" apply "$1"
else
  git -C /repo worktree add -q --detach "$WT" "$1"
fi
shift
PROP=$1; TIER=${2:-quick}
cd /verif
PTERA_REPO="$WT" VERIF_NOEVIDENCE=1 ./check "$PROP" --tier "$TIER" | cut -c1-400
