#!/bin/sh
# Re-validate every seeded change against /repo HEAD: patch applies, tests pass, demo fails with it /
# passes without it, and the check(s) named in meta.json detect it (quick tier).
cd /verif
for d in seeded/*/; do
  id=$(basename $d)
  checks=$(python3 -c "import json;print(' '.join(json.load(open('$d/meta.json'))['detected_by']))")
  out=$(tools/evalmut.sh $d $checks 2>&1)
  a=$(echo "$out" | grep -c "demo on unchanged tree: exit 0")
  b=$(echo "$out" | grep -c "269 passed")
  c=$(echo "$out" | grep "demo with the change" | grep -vc "exit 0")
  det=""
  for p in $checks; do n=$(echo "$out" | grep -c "^VIOLATION property=$p "); det="$det $p:$n"; done
  echo "$id unchanged-ok=$a tests-pass=$b demo-fails=$c detected:$det"
done
