import sys, collections, random, itertools
sys.argv_backup = sys.argv; sys.argv = [sys.argv[0], '0']
import ct_proto as P
sys.argv = sys.argv_backup
from ptera.overlay import BaseOverlay, autotool
from ptera.interpret import Total
from ptera.selector import select
NS = P.NS
def render(sel, path=()):
    parts = [f"{v} as {P.alias(v, path)}" for v in sel[2]]
    for i, c in enumerate(sel[3]):
        parts.append(render(c, path + (i,)))
    return f"F{sel[1]}({', '.join(parts)})"
def all_names(sel, path=()):
    out = [P.alias(v, path) for v in sel[2]]
    for i, c in enumerate(sel[3]):
        out += all_names(c, path + (i,))
    return out
def reference(log, sel):
    parent = {}; fnof = {}; binds = []; exits = []
    for t, e in enumerate(log):
        if e[0] == 'enter': parent[e[1]] = e[2]; fnof[e[1]] = e[3]
        elif e[0] == 'bind': binds.append((t, e[1], e[2], e[3]))
        elif e[0] == 'exit': exits.append(e[1])
    def ancestors(a):
        r = []
        while parent[a] is not None:
            a = parent[a]; r.append(a)
        return r
    def collect(subsel, spath, a, out):
        # a matches subsel root
        for v in subsel[2]:
            for (tt, act, var, val) in binds:
                if act == a and var == v:
                    out[P.alias(v, spath)].append((tt, val))
        for i, c in enumerate(subsel[3]):
            for b in fnof:
                if fnof[b] == c[1] and a in ancestors(b):
                    collect(c, spath + (i,), b, out)
    names = set(all_names(sel))
    recs = []
    for a in exits:
        if fnof[a] != sel[1]: continue
        out = collections.defaultdict(list)
        collect(sel, (), a, out)
        if set(out) == names:
            recs.append({k: [v for _, v in sorted(vs)] for k, vs in out.items()})
    return recs
def run(seed):
    rnd = random.Random(seed)
    tree = P.rand_tree(rnd, [rnd.randint(2, 9)])
    sel = P.rand_sel(rnd, rnd.randint(0, 2), False)
    if not all_names(sel): sel[2].append(P.VARS[sel[1]][0])
    s = render(sel)
    NS['LOG'].clear(); NS['CNT'][0] = 0; NS['ACT'][0] = 0
    got = []
    selobj = select(s, env=NS)
    autotool(selobj)
    try:
        with BaseOverlay(Total(selobj, close=lambda d: got.append({k: list(c.values) for k, c in d.items()}))):
            NS['DISPATCH'][tree[0]](tree)
    finally:
        autotool(selobj, undo=True)
    exp = reference(list(NS['LOG']), sel)
    if exp != got:
        return ('DIFF', s, tree, exp, got)
    return ('ok', s, len(got))
res = collections.Counter(); nontriv = 0; shown = 0
for seed in range(int(sys.argv[1])):
    r = run(seed)
    res[r[0]] += 1
    if r[0] == 'ok' and r[2] > 0: nontriv += 1
    if r[0] == 'DIFF' and shown < 4:
        shown += 1
        print(seed, r[1]); print(' tree', r[2]); print(' exp', r[3]); print(' got', r[4])
print(res, 'nontrivial', nontriv)
