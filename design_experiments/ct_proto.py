import random, itertools, sys, linecache, collections
from ptera.overlay import BaseOverlay, autotool
from ptera.interpret import Immediate, Total
from ptera.selector import select

NF = 3
VARS = {0: ['a0', 'b0'], 1: ['a1', 'b1'], 2: ['a2', 'b2']}
SRC = """
CNT = [0]
LOG = []
ACT = [0]
def uid():
    CNT[0] += 1
    return CNT[0]
"""
for i in range(NF):
    SRC += f"""
def F{i}(node, parent=None):
    ACT[0] += 1
    me = ACT[0]
    LOG.append(('enter', me, parent, {i}))
    a{i} = uid()
    LOG.append(('bind', me, 'a{i}', a{i}))
    for child in node[1]:
        DISPATCH[child[0]](child, me)
        b{i} = uid()
        LOG.append(('bind', me, 'b{i}', b{i}))
    LOG.append(('exit', me))
    return me
"""
SRC += "DISPATCH = {" + ", ".join(f"{i}: F{i}" for i in range(NF)) + "}\n"
fn = "<ctproto>"
linecache.cache[fn] = (len(SRC), None, SRC.splitlines(True), fn)
NS = {}
exec(compile(SRC, fn, "exec"), NS)

def rand_tree(rnd, budget):
    # returns node=(fn, children)
    f = rnd.randrange(NF)
    kids = []
    budget[0] -= 1
    while budget[0] > 0 and rnd.random() < 0.6:
        kids.append(rand_tree(rnd, budget))
    return (f, kids)

# selector AST: ('call', fn, captures[list of (var, is_focus)], children[list])
def rand_sel(rnd, depth, need_focus):
    f = rnd.randrange(NF)
    caps = []
    for v in VARS[f]:
        if rnd.random() < 0.5:
            caps.append(v)
    children = []
    if depth > 0:
        for _ in range(rnd.choice([0, 1, 1, 2])):
            children.append(rand_sel(rnd, depth - 1, False))
    return ['call', f, caps, children]

def all_calls(sel, path=()):
    yield sel, path
    for i, c in enumerate(sel[3]):
        yield from all_calls(c, path + (i,))

def place_focus(rnd, sel):
    calls = [(s, p) for s, p in all_calls(sel) if s[2]]
    if not calls:
        sel[2].append(VARS[sel[1]][0])
        calls = [(sel, ())]
    s, p = rnd.choice(calls)
    v = rnd.choice(s[2])
    return p, v

def render(sel, fpath, fvar, path=(), names=None):
    parts = []
    for v in sel[2]:
        alias = f"{v}_{'_'.join(map(str, path))}" if path else v
        alias = f"{v}p{''.join(map(str,path))}"
        s = f"{v} as {alias}"
        if path == fpath and v == fvar:
            s = "!" + s
        parts.append(s)
    for i, c in enumerate(sel[3]):
        parts.append(render(c, fpath, fvar, path + (i,)))
    return f"F{sel[1]}({', '.join(parts)})"

def alias(v, path):
    return f"{v}p{''.join(map(str,path))}"

def reference(log, sel, fpath, fvar):
    # build activation tree
    parent = {}; fnof = {}; binds = []  # (t, act, var, val)
    for t, e in enumerate(log):
        if e[0] == 'enter': parent[e[1]] = e[2]; fnof[e[1]] = e[3]
        elif e[0] == 'bind': binds.append((t, e[1], e[2], e[3]))
    def ancestors(a):
        r = []
        while parent[a] is not None:
            a = parent[a]; r.append(a)
        return r  # nearest first
    def is_desc(b, a):
        return a in ancestors(b)
    # path selectors
    levels = [sel]
    cur = sel
    for i in fpath:
        cur = cur[3][i]; levels.append(cur)
    def sub_matches(subsel, under):
        # activations matching subsel root strictly below `under`
        return [b for b in fnof if fnof[b] == subsel[1] and is_desc(b, under)]
    def collect_sibling(subsel, spath, under, t, out):
        for b in sub_matches(subsel, under):
            for v in subsel[2]:
                cands = [(tt, val) for (tt, act, var, val) in binds if act == b and var == v and tt <= t]
                if cands:
                    key = alias(v, spath)
                    best = max(cands)
                    if key not in out or out[key][0] < best[0]:
                        out[key] = best
            for i, c in enumerate(subsel[3]):
                collect_sibling(c, spath + (i,), b, t, out)
    events = collections.defaultdict(list)
    for (t, H, var, val) in binds:
        if var != fvar or fnof[H] != levels[-1][1]:
            continue
        chain = [H] + ancestors(H)  # nearest first
        chain_rev = list(reversed(chain))  # outermost first
        k = len(levels)
        # embeddings: choose indices i0<i1<...<i_{k-1} in chain_rev with last == H
        idxs = range(len(chain_rev) - 1)
        for combo in itertools.combinations(idxs, k - 1):
            acts = [chain_rev[i] for i in combo] + [H]
            if any(fnof[a] != lv[1] for a, lv in zip(acts, levels)):
                continue
            ev = {}
            for li, (a, lv) in enumerate(zip(acts, levels)):
                lpath = fpath[:li]
                for v in lv[2]:
                    if li == k - 1 and v == fvar:
                        continue
                    cands = [(tt, vv) for (tt, act, vr, vv) in binds if act == a and vr == v and tt < t]
                    if cands:
                        ev[alias(v, lpath)] = max(cands)
                for ci, c in enumerate(lv[3]):
                    if li < k - 1 and ci == fpath[li]:
                        continue
                    collect_sibling(c, lpath + (ci,), a, t, ev)
            ev = {kk: vv[1] for kk, vv in ev.items()}
            ev[alias(fvar, fpath)] = val
            events[val].append(ev)
    return events

def run(seed):
    rnd = random.Random(seed)
    tree = rand_tree(rnd, [rnd.randint(2, 9)])
    sel = rand_sel(rnd, rnd.randint(0, 2), True)
    fpath, fvar = place_focus(rnd, sel)
    s = render(sel, fpath, fvar)
    NS['LOG'].clear(); NS['CNT'][0] = 0; NS['ACT'][0] = 0
    got = collections.defaultdict(list)
    fkey = alias(fvar, fpath)
    def trig(d):
        dd = {k: c.value for k, c in d.items()}
        got[dd[fkey]].append(dd)
    try:
        selobj = select(s, env=NS)
    except Exception as e:
        return ('skip', s, repr(e))
    try:
        autotool(selobj)
    except Exception as e:
        return ('skip-tool', s, repr(e))
    try:
        with BaseOverlay(Immediate(selobj, trigger=trig)):
            NS['DISPATCH'][tree[0]](tree)
    finally:
        autotool(selobj, undo=True)
    exp = reference(list(NS['LOG']), sel, fpath, fvar)
    canon = lambda m: {k: sorted(sorted(d.items()) for d in v) for k, v in m.items()}
    if canon(exp) != canon(got):
        return ('DIFF', s, tree, canon(exp), canon(got))
    return ('ok', s, sum(len(v) for v in got.values()))

res = collections.Counter(); nontriv = 0; shown = 0
for seed in range(int(sys.argv[1]) if len(sys.argv) > 1 else 3000):
    r = run(seed)
    res[r[0]] += 1
    if r[0] == 'ok' and r[2] > 0: nontriv += 1
    if r[0] == 'DIFF' and shown < 3:
        shown += 1
        print(seed, r[1]); print(' tree', r[2]); print(' exp', r[3]); print(' got', r[4])
    if r[0].startswith('skip') and res[r[0]] <= 2: print(r)
print(res, 'nontrivial', nontriv)
