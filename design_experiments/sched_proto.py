import sys, threading, time, random, os, linecache
import ptera
from ptera import probing
from ptera.overlay import HandlerCollection
PT = os.path.dirname(ptera.__file__)
FILES = {os.path.join(PT, n) for n in ("transform.py", "overlay.py", "probe.py")}
HOT = {"push", "pop", "get", "_apply", "_tooler", "_untooler", "transform_for", "_register", "__enter__", "__exit__", "_enter", "_exit", "proceed", "autotool", "_install_tooling", "_uninstall_tooling"}

class Sched:
    def __init__(self, n, choose):
        self.n = n; self.choose = choose
        self.cv = threading.Condition()
        self.turn = None
        self.alive = set(range(n)); self.started = set()
        self.steps = 0; self.trace = []
    def start_barrier(self, tid):
        with self.cv:
            self.started.add(tid)
            if len(self.started) == self.n:
                self.turn = self.choose(self, sorted(self.alive), None)
                self.cv.notify_all()
            while self.turn != tid:
                self.cv.wait()
    def point(self, tid, label):
        with self.cv:
            self.steps += 1
            nxt = self.choose(self, sorted(self.alive), tid)
            self.trace.append((tid, label))
            if nxt != tid:
                self.turn = nxt
                self.cv.notify_all()
                while self.turn != tid:
                    self.cv.wait()
    def done(self, tid):
        with self.cv:
            self.alive.discard(tid)
            if self.alive:
                self.turn = self.choose(self, sorted(self.alive), None)
            self.cv.notify_all()

def make_tracer(s, tid):
    def local(frame, event, arg):
        if event == "line":
            s.point(tid, (frame.f_code.co_name, frame.f_lineno))
        return local
    def glob(frame, event, arg):
        co = frame.f_code
        if co.co_filename in FILES and co.co_name in HOT:
            return local
        return None
    return glob

def run_once(seed, mode):
    ns = {}
    src = "def f(x):\n    a = x * x\n    return a\n"
    fn = f"<gen-{seed}-{mode}>"
    linecache.cache[fn] = (len(src), None, src.splitlines(True), fn)
    exec(compile(src, fn, "exec"), ns)
    f = ns["f"]; orig = f.__code__
    rnd = random.Random(seed)
    def choose(s, alive, cur):
        if cur is None: return rnd.choice(alive)
        if mode == 'seq': return cur
        return rnd.choice(alive) if rnd.random() < 0.1 else cur
    N = 2
    s = Sched(N, choose)
    out = [None] * N; errs = []
    def worker(tid):
        sys.settrace(make_tracer(s, tid))
        s.start_barrier(tid)
        try:
            res = []
            for rep in range(2):
                with probing("f > a", env=ns).values() as v:
                    r = f(tid + 2)
                res.append((r, list(v)))
            out[tid] = res
        except BaseException as e:
            errs.append((tid, repr(e)))
        finally:
            sys.settrace(None)
            s.done(tid)
    ths = [threading.Thread(target=worker, args=(i,)) for i in range(N)]
    for t in ths: t.start()
    for t in ths: t.join(20)
    ok = all(out[t] == [((t+2)**2, [{'a': (t+2)**2}])]*2 for t in range(N)) and not errs
    st = f.__ptera_stack__
    clean = f.__code__ is orig and st.instrument_count == 0 and all(c == 0 for c in st.captures.values())
    return ok, clean, s.steps, out, errs

t0 = time.time()
print(run_once(0, 'seq')[:3])
bad = 0
for seed in range(300):
    ok, clean, steps, out, errs = run_once(seed, 'rand')
    if not (ok and clean):
        bad += 1
        if bad <= 3: print(seed, ok, clean, steps, out, errs)
print("bad", bad, "of 300", time.time() - t0)
